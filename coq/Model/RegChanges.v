(* ISASemantics.get_reg_changes (osaca/semantics/isa_semantics.py) and the `operation:` strings of the ISA data bases
   (osaca/data/isa/x86.yml, aarch64.yml) -- DESIGN.md C06 / C03.

   The implementation `exec`s the `operation:` string of the ISA entry on a dictionary  'opN' -> {'name': .., 'value': ..}.
   Here the string is a statement list of a tiny AST (produced by tools/gen_regchg.py from the CURRENT yml files with
   Python's `ast`, fail closed: Gen/Operations.v) and `exec` is the interpreter `exec_stmts`.  Python exceptions are
   explicit error values.  Inputs of `get_reg_changes`, as everywhere in the dependency models:
     * whether the line has a mnemonic,
     * dest_reg_names: prefix+name of the RegisterOperands among semantic_operands destination + src_dst, in order,
     * the full-width names parser.get_full_width_reg_name gives for those destination registers (non-None ones, in order),
     * the parsed operands (register full name / immediate value / memory operand with base, offset, write-back / other),
     * the ISA entry the (suffix-stripping) look-up selected, or None: per-operand `destination` flags and the operation.
   Output: the returned dict in insertion order (register -> None | operand state), or the exception raised.
   Modelled as of /repo 25d1345: a register that is source and destination takes the state of the written operand
   (0bfe782); the base of a post-indexed operand is reported unchanged in the full dict ("op_post") and bumped in the
   only_postindexed dict; post-index by a register is an unknown change (b9d426a); a written sub-register makes the
   full-width register unknown (patches/C06-fix-subregister-write-unknown.diff; with fulls = [] this is the behaviour before).
   No proofs in this file. *)
From Coq Require Import ZArith List Bool String.
From OV Require Import Model.Num Model.Pressure Model.Deps.
Import ListNotations.

(* ---------------------------------------------------------------- the statement AST of `operation:` strings *)
Inductive vexpr :=
| VInt (z : Z)                      (* integer literal *)
| VVal (op : nat)                   (* opN['value'] *)
| VAdd (a b : vexpr)
| VSub (a b : vexpr).

Inductive stmt :=
| SSetValue (op : nat) (e : vexpr)                 (* opN['value'] = e *)
| SAugValue (op : nat) (plus : bool) (e : vexpr)   (* opN['value'] += e   /   opN['value'] -= e *)
| SSetName (op src : nat).                         (* opN['name'] = opM['name'] *)

(* ---------------------------------------------------------------- Python values and errors *)
Inductive pyerr := ENameError | EKeyError | ETypeError | EValueError | EAttributeError | EIndexError.
Inductive res (A : Type) := Ok (a : A) | Err (e : pyerr).
Arguments Ok {A}. Arguments Err {A}.
Definition bind {A B} (r : res A) (f : A -> res B) : res B := match r with Ok a => f a | Err e => Err e end.

(* one operand state dict: key 'name' may be absent; 'value' is always present, an int or None *)
Record ostate := mkO { o_name : option string; o_value : option Z }.
(* operand_state: 'opN' -> dict, keyed by N (1-based) *)
Definition opstate := list (nat * ostate).
Fixpoint st_get (st : opstate) (n : nat) : option ostate :=
  match st with [] => None | (k, v) :: r => if Nat.eqb n k then Some v else st_get r n end.
Fixpoint st_set (st : opstate) (n : nat) (v : ostate) : opstate :=
  match st with
  | [] => [(n, v)]
  | (k, v') :: r => if Nat.eqb n k then (k, v) :: r else (k, v') :: st_set r n v
  end.

Definition arith (plus : bool) (x y : option Z) : res (option Z) :=
  match x, y with
  | Some a, Some b => Ok (Some (if plus then a + b else a - b)%Z)
  | _, _ => Err ETypeError                       (* int + None *)
  end.

(* Python evaluates the left operand first *)
Fixpoint eval (st : opstate) (e : vexpr) : res (option Z) :=
  match e with
  | VInt z => Ok (Some z)
  | VVal n => match st_get st n with None => Err ENameError | Some o => Ok (o_value o) end
  | VAdd a b => bind (eval st a) (fun x => bind (eval st b) (fun y => arith true x y))
  | VSub a b => bind (eval st a) (fun x => bind (eval st b) (fun y => arith false x y))
  end.

Definition exec_stmt (st : opstate) (s : stmt) : res opstate :=
  match s with
  | SSetValue n e =>
    (* right-hand side first, then the target *)
    bind (eval st e) (fun v =>
      match st_get st n with
      | None => Err ENameError
      | Some o => Ok (st_set st n (mkO (o_name o) v))
      end)
  | SAugValue n plus e =>
    (* target is loaded first, then the right-hand side *)
    match st_get st n with
    | None => Err ENameError
    | Some o => bind (eval st e) (fun y => bind (arith plus (o_value o) y) (fun v => Ok (st_set st n (mkO (o_name o) v))))
    end
  | SSetName n m =>
    match st_get st m with
    | None => Err ENameError
    | Some om =>
      match o_name om with
      | None => Err EKeyError
      | Some nm =>
        match st_get st n with
        | None => Err ENameError
        | Some o => Ok (st_set st n (mkO (Some nm) (o_value o)))
        end
      end
    end
  end.

Fixpoint exec_stmts (st : opstate) (l : list stmt) : res opstate :=
  match l with
  | [] => Ok st
  | s :: r => bind (exec_stmt st s) (fun st' => exec_stmts st' r)
  end.

(* ---------------------------------------------------------------- get_reg_changes *)
Inductive ioff := OffNone | OffImm (v : option Z) | OffOther.        (* offset: None / ImmediateOperand(value) / identifier *)
Inductive ipost := PostFalse | PostImm (v : Z) | PostOther.          (* post_indexed: False / {'value': v} / a dict without 'value' (post-index by a register) *)
Inductive iop :=
| IReg (nm : string)                                                  (* RegisterOperand, prefix + name *)
| IImm (v : option Z)                                                 (* ImmediateOperand, its value *)
| IMem (base : option string) (off : ioff) (pre : bool) (post : ipost)
| IOther.

Record rc_entry := mkRC {
  rc_dst : list bool;                   (* isa_data.operands[i].destination *)
  rc_op : option (list stmt) }.         (* isa_data.operation *)

Definition rc_dict := list (string * option ostate).
Inductive rc_result := RcOk (d : rc_dict) | RcErr (e : pyerr).

(* reg_operand_names: register name -> operand number *)
Definition names := list (string * nat).
Fixpoint nm_get (m : names) (k : string) : option nat :=
  match m with [] => None | (k', v) :: r => if String.eqb k k' then Some v else nm_get r k end.
Fixpoint nm_set (m : names) (k : string) (v : nat) : names :=
  match m with
  | [] => [(k, v)]
  | (k', v') :: r => if String.eqb k k' then (k, v) :: r else (k', v') :: nm_set r k v
  end.

Definition has_operation (isa : option rc_entry) : bool :=
  match isa with Some e => match rc_op e with Some _ => true | None => false end | None => false end.

(* for o in operands:
     if isinstance(o, MemoryOperand) and o.pre_indexed: ... (both dicts are REPLACED: the last one wins)
     if isinstance(o, MemoryOperand) and o.base is not None and isinstance(o.post_indexed, dict):
         reg_operand_names[base] = "op_post"; operand_state["op_post"] = {name: base, value: 0}
   The key "op_post" is operand number 0 here (the opN keys start at 1). *)
Definition op_post : nat := 0.
Definition is_postdict (p : ipost) : bool := match p with PostFalse => false | _ => true end.

Fixpoint pre_loop (hasop : bool) (ops : list iop) (acc : names * opstate) : res (names * opstate) :=
  match ops with
  | [] => Ok acc
  | o :: r =>
    let step1 : res (names * opstate) :=
      match o with
      | IMem base off true _ =>
        if hasop then Err EValueError
        else match base with
             | None => Err EAttributeError                (* o.base.prefix *)
             | Some b =>
               match off with
               | OffImm v => Ok ([(b, 1%nat)], [(1%nat, mkO (Some b) v)])
               | _ => Err EAttributeError                 (* o.offset.value *)
               end
             end
      | _ => Ok acc
      end in
    bind step1 (fun acc1 =>
      let acc2 :=
        match o with
        | IMem (Some b) _ _ post =>
          if is_postdict post then (nm_set (fst acc1) b op_post, st_set (snd acc1) op_post (mkO (Some b) (Some 0%Z))) else acc1
        | _ => acc1
        end in
      pre_loop hasop r acc2)
  end.

(* for i, o in enumerate(operands): ... *)
Fixpoint op_loop (dst : list bool) (i : nat) (ops : list iop) (acc : names * opstate) : res (names * opstate) :=
  match ops with
  | [] => Ok acc
  | o :: r =>
    let '(nm, st) := acc in
    match o with
    | IReg n =>
      (* if o_reg_name not in reg_operand_names or isa_data.operands[i].destination *)
      let upd : res bool :=
        match nm_get nm n with
        | None => Ok true
        | Some _ => match nth_error dst i with Some b => Ok b | None => Err EIndexError end
        end in
      bind upd (fun u =>
        op_loop dst (S i) r (if u then nm_set nm n (S i) else nm, st_set st (S i) (mkO (Some n) (Some 0%Z))))
    | IImm v => op_loop dst (S i) r (nm, st_set st (S i) (mkO None v))
    | _ => op_loop dst (S i) r acc
    end
  end.

Fixpoint find_post (ops : list iop) : option (string * ipost) :=
  match ops with
  | [] => None
  | IMem (Some b) _ _ (PostImm v) :: _ => Some (b, PostImm v)
  | IMem (Some b) _ _ PostOther :: _ => Some (b, PostOther)
  | _ :: r => find_post r
  end.

(* {reg_name: ... for reg_name in dest_reg_names}: a repeated key keeps its first position *)
Fixpoint dedup (seen : list string) (l : list string) : list string :=
  match l with
  | [] => []
  | x :: r => if existsb (String.eqb x) seen then dedup seen r else x :: dedup (x :: seen) r
  end.

Definition change_dict (dests : list string) (nm : names) (st : opstate) : rc_dict :=
  map (fun reg => (reg, match nm_get nm reg with Some k => st_get st k | None => None end)) (dedup [] dests).

(* everything except the sub-register rule at the end *)
Definition get_reg_changes_core (has_mnem : bool) (dests : list string) (ops : list iop) (isa : option rc_entry)
           (only_postindexed : bool) : rc_result :=
  if negb has_mnem then RcOk []
  else if only_postindexed then
    match find_post ops with
    | Some (b, PostImm v) => RcOk [(b, Some (mkO (Some b) (Some v)))]
    | Some (b, _) => RcOk [(b, None)]                      (* post-index by a register: unknown change *)
    | None => RcOk []
    end
  else
    match pre_loop (has_operation isa) ops ([], []) with
    | Err e => RcErr e
    | Ok acc =>
      let after : res (names * opstate) :=
        match isa with
        | Some e =>
          match rc_op e with
          | Some code =>
            bind (op_loop (rc_dst e) 0 ops acc) (fun a => bind (exec_stmts (snd a) code) (fun st' => Ok (fst a, st')))
          | None => Ok acc
          end
        | None => Ok acc
        end in
      match after with
      | Err e => RcErr e
      | Ok (nm, st) => RcOk (change_dict dests nm st)
      end
    end.

(* for op in dest_regs: full = parser.get_full_width_reg_name(op); if full is not None: change_dict[full] = None
   A write to a narrower part of a general purpose register (eax, ax, al, r8d, w1) changes the full-width register
   (rax, r8, x1) beyond reconstruction.  `fulls` = the non-None results of get_full_width_reg_name over the destination
   registers, in order (an input, like the register alias test of Model/Deps.v; tied by harness/regchg.py).
   Python dict assignment: an existing key keeps its position, a new key is appended. *)
Fixpoint set_none (d : rc_dict) (k : string) : rc_dict :=
  match d with
  | [] => [(k, None)]
  | (k', v) :: r => if String.eqb k k' then (k', None) :: r else (k', v) :: set_none r k
  end.
Definition widen (fulls : list string) (d : rc_dict) : rc_dict := fold_left set_none fulls d.

Definition get_reg_changes (has_mnem : bool) (dests fulls : list string) (ops : list iop) (isa : option rc_entry)
           (only_postindexed : bool) : rc_result :=
  match get_reg_changes_core has_mnem dests ops isa only_postindexed with
  | RcOk d => RcOk (if andb has_mnem (negb only_postindexed) then widen fulls d else d)
  | RcErr e => RcErr e
  end.

(* dest_reg_names from the semantic operand sets of Model/Deps.v / Model/Roles.v *)
Definition dest_reg_names (sem : list opnd * list opnd * list opnd) : list string :=
  let '(_, d, sd) := sem in
  flat_map (fun o => match o with OReg r => [fullname r] | _ => [] end) (d ++ sd).

(* what KernelDG._update_reg_changes / Model/Deps.v consume: None | (name, value).
   A state without 'name' or with value None makes _update_reg_changes raise: no `change` *)
Definition to_change (c : option ostate) : option change :=
  match c with
  | None => Some None
  | Some o => match o_name o, o_value o with Some n, Some v => Some (Some (n, v)) | _, _ => None end
  end.
Fixpoint to_changes (d : rc_dict) : option (list (string * change)) :=
  match d with
  | [] => Some []
  | (k, c) :: r =>
    match to_change c, to_changes r with
    | Some c', Some r' => Some ((k, c') :: r')
    | _, _ => None
    end
  end.

(* ---------------------------------------------------------------- the regenerated table (Gen/Operations.v) *)
Inductive pkind := KReg | KImm | KMem.
Record pat1 := mkP { p_kind : pkind; p_src : bool; p_dst : bool }.
Record op_entry := mkOp {
  oe_x86 : bool;                (* true: x86.yml, false: aarch64.yml *)
  oe_mnem : string;             (* upper-cased entry name *)
  oe_idx : nat;                 (* position among the entries of that name *)
  oe_pat : list pat1;
  oe_stmts : list stmt;
  oe_text : string }.           (* the operation string as written *)

Definition entry_of (e : op_entry) : rc_entry := mkRC (map p_dst (oe_pat e)) (Some (oe_stmts e)).

Definition lookup_op (tab : list op_entry) (x86 : bool) (mnem : string) (idx : nat) : option op_entry :=
  find (fun e => andb (Bool.eqb (oe_x86 e) x86) (andb (String.eqb (oe_mnem e) mnem) (Nat.eqb (oe_idx e) idx))) tab.

(* destination registers of an instance, by the entry's operand flags (no hidden register operands, no idiom flag:
   the translator refuses such entries) -- what assign_src_dst puts into destination + src_dst: first the
   destination-only operands, then the source-and-destination ones *)
Definition pattern_dests (pat : list pat1) (ops : list iop) : list string :=
  flat_map (fun po => match snd po with IReg n => if andb (p_dst (fst po)) (negb (p_src (fst po))) then [n] else [] | _ => [] end) (combine pat ops)
  ++ flat_map (fun po => match snd po with IReg n => if andb (p_dst (fst po)) (p_src (fst po)) then [n] else [] | _ => [] end) (combine pat ops).

(* equality tests for the correspondence shards *)
Definition oz_eqb (a b : option Z) : bool := match a, b with Some x, Some y => Z.eqb x y | None, None => true | _, _ => false end.
Definition os_eqb (a b : option string) : bool := match a, b with Some x, Some y => String.eqb x y | None, None => true | _, _ => false end.
Definition ostate_eqb (a b : ostate) : bool := andb (os_eqb (o_name a) (o_name b)) (oz_eqb (o_value a) (o_value b)).
Definition oost_eqb (a b : option ostate) : bool := match a, b with Some x, Some y => ostate_eqb x y | None, None => true | _, _ => false end.
Fixpoint dict_eqb (a b : rc_dict) : bool :=
  match a, b with
  | [], [] => true
  | (k, v) :: r, (k', v') :: r' => andb (andb (String.eqb k k') (oost_eqb v v')) (dict_eqb r r')
  | _, _ => false
  end.
Definition pyerr_eqb (a b : pyerr) : bool :=
  match a, b with
  | ENameError, ENameError | EKeyError, EKeyError | ETypeError, ETypeError | EValueError, EValueError
  | EAttributeError, EAttributeError | EIndexError, EIndexError => true
  | _, _ => false
  end.
Definition rc_eqb (a b : rc_result) : bool :=
  match a, b with RcOk x, RcOk y => dict_eqb x y | RcErr x, RcErr y => pyerr_eqb x y | _, _ => false end.
