(* C20 -- prelude for the translated benchmark-import functions (no proofs here).
   * NumOps: the record of numeric operations the translated code is generic in,
     with the exact instance QNum (theorems) and the binary64 instance FNum
     (bit-exact correspondence with CPython doubles).
   * pyval / pydict: Python dict literals with string keys (the "DB operand" dicts).
   * a few more str operations (operand[1:2], range). *)
From Coq Require Import String Ascii List Bool ZArith QArith Qround.
From Coq Require Import Uint63 PrimFloat SpecFloat FloatOps.
From OV Require Import Model.PyString.
Import ListNotations.

Set Implicit Arguments.

(* ------------------------------------------------------------------ numbers *)
Record NumOps (T : Type) := {
  nadd : T -> T -> T; nsub : T -> T -> T; nmul : T -> T -> T; ndiv : T -> T -> T;
  nopp : T -> T;
  nofZ : Z -> T;                 (* float(int) / int operand of a float operation *)
  nofQ : Z -> Z -> T;            (* a decimal literal p/q as written in the source *)
  nleb : T -> T -> bool; nltb : T -> T -> bool; neqb : T -> T -> bool;
  nfloor : T -> Z; nceil : T -> Z;   (* math.floor / math.ceil *)
  nround : T -> Z;               (* round(x): nearest integer, ties to even, on the exact value *)
  nroundd : Z -> T -> T          (* round(x, d): nearest multiple of 10^-d, ties to even, on the exact value *)
}.

(* ---- exact rationals *)
Definition qround (q : Q) : Z :=
  let f := Qfloor q in
  match Qcompare (q - inject_Z f) (1 # 2) with
  | Lt => f
  | Eq => if Z.even f then f else (f + 1)%Z
  | Gt => (f + 1)%Z
  end.
Definition qroundd (d : Z) (q : Q) : Q :=
  let p := (10 ^ d)%Z in Qmake (qround (q * inject_Z p)) (Z.to_pos p).
Definition QNum : NumOps Q := {|
  nadd := Qplus; nsub := Qminus; nmul := Qmult; ndiv := Qdiv; nopp := Qopp;
  nofZ := inject_Z; nofQ := fun a b => Qmake a (Z.to_pos b);
  nleb := Qle_bool; nltb := fun a b => negb (Qle_bool b a); neqb := Qeq_bool;
  nfloor := Qfloor; nceil := Qceiling; nround := qround; nroundd := qroundd |}.

(* ---- IEEE binary64 (Coq primitive floats) *)
(* exact value of a finite double as (signed mantissa, exponent): x = z * 2^e *)
Definition f_decode (x : float) : option (Z * Z) :=
  match Prim2SF x with
  | S754_zero _ => Some (0%Z, 0%Z)
  | S754_finite s m e => Some ((if s then Z.neg m else Z.pos m), e)
  | _ => None
  end.
Definition f_toQ (x : float) : Q :=
  match f_decode x with
  | Some (z, e) => if (0 <=? e)%Z then inject_Z (z * 2 ^ e) else Qmake z (Z.to_pos (2 ^ (- e)))
  | None => 0
  end.
(* round-half-even of  n / d  (d > 0) *)
Definition z_rhe (n d : Z) : Z :=
  let q := (n / d)%Z in let r := (n mod d)%Z in
  match (2 * r ?= d)%Z with
  | Lt => q | Gt => (q + 1)%Z | Eq => if Z.even q then q else (q + 1)%Z end.
(* int -> double, correctly rounded (CPython PyLong_AsDouble: round half to even) *)
Definition f_ofpos (n : Z) : float :=
  let bits := (Z.log2 n + 1)%Z in
  if (bits <=? 53)%Z then of_uint63 (Uint63.of_Z n)
  else let sh := (bits - 53)%Z in
       FloatOps.Z.ldexp (of_uint63 (Uint63.of_Z (z_rhe n (2 ^ sh)))) sh.
Definition f_ofZ (z : Z) : float :=
  match z with Z0 => zero | Zpos _ => f_ofpos z | Zneg p => PrimFloat.opp (f_ofpos (Zpos p)) end.
Definition f_floor (x : float) : Z :=
  match f_decode x with
  | Some (z, e) => if (0 <=? e)%Z then (z * 2 ^ e)%Z else (z / 2 ^ (- e))%Z
  | None => 0%Z   (* inf/nan: CPython raises; excluded by the harness, see notes/C20.md *)
  end.
Definition f_ceil (x : float) : Z :=
  match f_decode x with
  | Some (z, e) => if (0 <=? e)%Z then (z * 2 ^ e)%Z else (- ((- z) / 2 ^ (- e)))%Z
  | None => 0%Z
  end.
Definition f_round (x : float) : Z :=
  match f_decode x with
  | Some (z, e) => if (0 <=? e)%Z then (z * 2 ^ e)%Z else z_rhe z (2 ^ (- e))
  | None => 0%Z
  end.
(* CPython round(x, d): correctly rounded decimal with d digits (ties to even on the exact binary
   value), converted back by a correctly rounded strtod = the double nearest to n / 10^d. *)
Definition f_roundd (d : Z) (x : float) : float :=
  match f_decode x with
  | Some (z, e) =>
      let p := (10 ^ d)%Z in
      let n := if (0 <=? e)%Z then (z * p * 2 ^ e)%Z else z_rhe (z * p) (2 ^ (- e)) in
      PrimFloat.div (f_ofZ n) (f_ofZ p)
  | None => x
  end.
Definition FNum : NumOps float := {|
  nadd := PrimFloat.add; nsub := PrimFloat.sub; nmul := PrimFloat.mul; ndiv := PrimFloat.div;
  nopp := PrimFloat.opp;
  nofZ := f_ofZ; nofQ := fun a b => PrimFloat.div (f_ofZ a) (f_ofZ b);
  nleb := PrimFloat.leb; nltb := PrimFloat.ltb; neqb := PrimFloat.eqb;
  nfloor := f_floor; nceil := f_ceil; nround := f_round; nroundd := f_roundd |}.

(* bit-level equality of doubles (distinguishes the zeros; nan = nan) *)
Definition sf_eqb (a b : spec_float) : bool :=
  match a, b with
  | S754_zero s, S754_zero t => Bool.eqb s t
  | S754_infinity s, S754_infinity t => Bool.eqb s t
  | S754_nan, S754_nan => true
  | S754_finite s m e, S754_finite t n f => andb (Bool.eqb s t) (andb (Pos.eqb m n) (Z.eqb e f))
  | _, _ => false
  end.
Definition f_biteq (a b : float) : bool := sf_eqb (Prim2SF a) (Prim2SF b).

(* ------------------------------------------------------------------ dict literals *)
Inductive pyval := PStr (s : string) | PInt (z : Z) | PBool (b : bool) | PNone.
Definition pydict := list (string * pyval).

Definition pyval_eqb (a b : pyval) : bool :=
  match a, b with
  | PStr s, PStr t => String.eqb s t
  | PInt x, PInt y => Z.eqb x y
  | PBool x, PBool y => Bool.eqb x y
  | PNone, PNone => true
  | _, _ => false
  end.
Fixpoint pydict_eqb (a b : pydict) : bool :=   (* same keys in the same order, same values *)
  match a, b with
  | [], [] => true
  | (k, v) :: r, (k', v') :: r' => andb (String.eqb k k') (andb (pyval_eqb v v') (pydict_eqb r r'))
  | _, _ => false
  end.

(* ------------------------------------------------------------------ more str / builtins *)
(* s[1:2] *)
Definition py_slice_1_2 (s : string) : string :=
  match s with String _ (String c _) => String c EmptyString | _ => EmptyString end.
(* range(a, b) *)
Definition py_range (a b : Z) : list Z := map (fun i => (a + Z.of_nat i)%Z) (seq 0 (Z.to_nat (b - a))).
