(* C10 -- lexer of the AArch64 parser model (executable, no proofs).
   Tokens are chosen so that every piece the pyparsing grammar `Combine`s (or that must not contain
   white space) is ONE token:
     TW  a maximal run of [A-Za-z0-9_.], possibly starting with '-' directly followed by a digit
         (negative numeral) and possibly containing the sign of a floating-point exponent
         (a '+'/'-' directly after an 'e'/'E' that ends a word starting with a digit or '-');
     TP  one punctuation character of  , [ ] { } # ! - / :
     TC  "//" and the raw rest of the line.
   White space (what pyparsing skips: space, tab, CR) separates tokens and is otherwise dropped.
   Any other character makes the lexer answer None (the line is outside the modelled sub-language). *)
From Coq Require Import String Ascii List Bool Arith NArith.
Import ListNotations.
Open Scope string_scope.

Definition codeN (c : ascii) : N := N_of_ascii c.
Definition in_rng (c : ascii) (lo hi : N) : bool := andb (N.leb lo (codeN c)) (N.leb (codeN c) hi).
Definition is_digit (c : ascii) : bool := in_rng c 48 57.
Definition is_lower (c : ascii) : bool := in_rng c 97 122.
Definition is_upper (c : ascii) : bool := in_rng c 65 90.
Definition is_alpha (c : ascii) : bool := orb (is_lower c) (is_upper c).
Definition is_hex (c : ascii) : bool := orb (is_digit c) (orb (in_rng c 97 102) (in_rng c 65 70)).
Definition ceq (a b : ascii) : bool := Ascii.eqb a b.
Definition is_wordch (c : ascii) : bool :=
  orb (is_alpha c) (orb (is_digit c) (orb (ceq c "_") (ceq c "."))).
(* pyparsing's default skipped white space inside one line *)
Definition is_ws (c : ascii) : bool := orb (ceq c " ") (orb (ceq c "009") (ceq c "013")).
Definition is_printable (c : ascii) : bool := in_rng c 33 126.
Definition is_punct (c : ascii) : bool :=
  existsb (ceq c) ["," ; "[" ; "]" ; "{" ; "}" ; "#" ; "!" ; "-" ; "/" ; ":"]%char.
Definition is_sign (c : ascii) : bool := orb (ceq c "+") (ceq c "-").
Definition low (c : ascii) : ascii := if is_upper c then ascii_of_N (codeN c + 32) else c.
Definition upc (c : ascii) : ascii := if is_lower c then ascii_of_N (codeN c - 32) else c.
Fixpoint smap (f : ascii -> ascii) (s : string) : string :=
  match s with EmptyString => EmptyString | String c r => String (f c) (smap f r) end.
Definition lower := smap low.
Definition upper := smap upc.
Fixpoint sall (f : ascii -> bool) (s : string) : bool :=
  match s with EmptyString => true | String c r => andb (f c) (sall f r) end.

(* TWI: a word spelling a condition code that is followed by white space.  The implementation reads it
   as an identifier (the `identifier` alternative of its longest-match choice ends with an Optional,
   which swallows the white space and so wins over the bare condition-code literal). *)
Inductive tok := TW (w : string) | TWI (w : string) | TP (c : ascii) | TC (raw : string).
Definition cond_codes : list string :=
  ["eq";"ne";"cs";"hs";"cc";"lo";"mi";"pl";"vs";"vc";"hi";"ls";"ge";"lt";"gt";"le";"al"].
Definition is_cond (w : string) : bool := existsb (String.eqb (lower w)) cond_codes.

Definition head_is (f : ascii -> bool) (s : string) : bool :=
  match s with String c _ => f c | EmptyString => false end.
Fixpoint last_is (f : ascii -> bool) (s : string) : bool :=
  match s with
  | EmptyString => false
  | String c EmptyString => f c
  | String _ r => last_is f r
  end.
Definition is_e (c : ascii) : bool := orb (ceq c "e") (ceq c "E").
(* the current word can take an exponent sign *)
Definition sign_ctx (acc : string) : bool :=
  andb (head_is (fun c => orb (is_digit c) (ceq c "-")) acc) (last_is is_e acc).

Definition flush (acc : string) (l : list tok) : list tok :=
  match acc with EmptyString => l | _ => TW acc :: l end.
Definition flush_ws (acc : string) (l : list tok) : list tok :=
  match acc with EmptyString => l | _ => (if is_cond acc then TWI acc else TW acc) :: l end.
Definition snoc (s : string) (c : ascii) : string := s ++ String c "".

(* acc = the word being read ("" = none) *)
Fixpoint lx (s : string) (acc : string) : option (list tok) :=
  match s with
  | EmptyString => Some (flush acc [])
  | String c r =>
    if is_wordch c then lx r (snoc acc c)
    else if andb (is_sign c) (sign_ctx acc) then lx r (snoc acc c)
    else if andb (ceq c "-") (andb (match acc with EmptyString => true | _ => false end) (head_is is_digit r))
    then lx r (String c "")
    else if is_ws c then option_map (flush_ws acc) (lx r "")
    else if andb (ceq c "/") (head_is (ceq "/") r)
    then Some (flush acc [TC (match r with String _ r' => r' | EmptyString => "" end)])
    else if is_punct c then option_map (fun l => flush acc (TP c :: l)) (lx r "")
    else None
  end.

(* a line the grammar can see at all: printable ASCII and skipped white space only *)
Definition line_ok (s : string) : bool := sall (fun c => orb (is_printable c) (is_ws c)) s.
Definition lex (s : string) : option (list tok) := if line_ok s then lx s "" else None.

(* ---- rendering of a token list with its layout: white space before each token ---- *)
Definition tok_string (t : tok) : string :=
  match t with TW w => w | TWI w => w | TP c => String c "" | TC raw => "//" ++ raw end.
Fixpoint render_toks (l : list (string * tok)) (trail : string) : string :=
  match l with
  | [] => trail
  | (ws, t) :: r => ws ++ tok_string t ++ render_toks r trail
  end.
