(* Architectural register universes and their overlap partition, written from the
   architecture manuals / the text of property C12 -- NOT from OSACA's code. *)
From Coq Require Import String Ascii List Bool Arith.
From OV Require Import Model.PyString.
Import ListNotations.
Open Scope string_scope.

(* ------------------------------------------------------------------ x86 *)
(* a family is identified by a natural number; names are given in lower case *)
Definition x86_legacy : list (list string) :=
  [ ["rax"; "eax"; "ax"; "al"; "ah"];
    ["rbx"; "ebx"; "bx"; "bl"; "bh"];
    ["rcx"; "ecx"; "cx"; "cl"; "ch"];
    ["rdx"; "edx"; "dx"; "dl"; "dh"];
    ["rbp"; "ebp"; "bp"; "bpl"];
    ["rsp"; "esp"; "sp"; "spl"];
    ["rsi"; "esi"; "si"; "sil"];
    ["rdi"; "edi"; "di"; "dil"] ].

Definition x86_numbered : list (list string) :=
  map (fun n => let s := string_of_nat n in ["r" ++ s; "r" ++ s ++ "d"; "r" ++ s ++ "w"; "r" ++ s ++ "b"])
      (seq 8 8).

Definition x86_vec : list (list string) :=
  map (fun n => let s := string_of_nat n in ["xmm" ++ s; "ymm" ++ s; "zmm" ++ s]) (seq 0 32).

Definition x86_single : list (list string) :=
  map (fun n => ["mm" ++ string_of_nat n]) (seq 0 8) ++ map (fun n => ["k" ++ string_of_nat n]) (seq 0 8).

Definition x86_families : list (list string) := x86_legacy ++ x86_numbered ++ x86_vec ++ x86_single.

(* (family index, written name) for lower and upper case spellings *)
Definition tag_families (fs : list (list string)) : list (nat * string) :=
  concat (map (fun p => concat (map (fun nm => [(fst p, nm); (fst p, py_upper nm)]) (snd p)))
              (combine (seq 0 (length fs)) fs)).

Definition U86 : list (nat * string) := tag_families x86_families.
Definition overlap86 (a b : nat * string) : bool := Nat.eqb (fst a) (fst b).

(* ------------------------------------------------------------------ AArch64 *)
(* a register is (prefix, name) as the parser delivers it *)
Inductive a64class := A64Gpr | A64Vec | A64Pred.
Definition a64class_eqb (a b : a64class) : bool :=
  match a, b with A64Gpr, A64Gpr | A64Vec, A64Vec | A64Pred, A64Pred => true | _, _ => false end.

Definition a64_prefixes : list (string * a64class) :=
  [("w", A64Gpr); ("x", A64Gpr);
   ("b", A64Vec); ("h", A64Vec); ("s", A64Vec); ("d", A64Vec); ("q", A64Vec); ("v", A64Vec); ("z", A64Vec);
   ("p", A64Pred)].

(* names: numbers 0..31 for every prefix; sp / zr (either case) for w and x *)
Definition a64_names (c : a64class) : list (string * string) :=  (* written name, canonical name *)
  map (fun n => (string_of_nat n, string_of_nat n)) (seq 0 32) ++
  match c with A64Gpr => [("sp", "sp"); ("SP", "sp"); ("zr", "zr"); ("ZR", "zr")] | _ => [] end.

Record a64reg := { a_class : a64class; a_canon : string; a_prefix : string; a_name : string }.

Definition UA64 : list a64reg :=
  concat (map (fun pc =>
    concat (map (fun nn =>
      [ {| a_class := snd pc; a_canon := snd nn; a_prefix := fst pc; a_name := fst nn |};
        {| a_class := snd pc; a_canon := snd nn; a_prefix := py_upper (fst pc); a_name := fst nn |} ])
      (a64_names (snd pc)))) a64_prefixes).

(* w/x of equal number; b/h/s/d/q/v/z of equal number; p only with itself (same number) *)
Definition overlapA64 (a b : a64reg) : bool :=
  andb (a64class_eqb (a_class a) (a_class b)) (String.eqb (a_canon a) (a_canon b)).

Definition all_pairs {A} (l : list A) : list (A * A) := list_prod l l.
