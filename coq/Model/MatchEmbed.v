(* C07 -- embedding of the hand model's operand and pattern types (Model/Match.v) into the dynamically typed
   Python values of Model/PyDyn.v, as the real objects of osaca/parser/*.py look (checks/c07.py dumps real objects
   and compares them with this embedding on every run).  No proofs here.

   What an embedding fixes and what it leaves open:
   * every attribute the matcher can reach is listed with the value the hand-model type carries;
   * all further attributes of an object (source, destination, shift, predication, segment_ext, ...) are an ARBITRARY
     list `e_extra e <class>` appended behind the listed ones -- the theorems quantify over it;
   * the attributes that only RegisterOperand.__eq__ reads (width, regtype, index, mask, zeroing) are fixed to the
     constructor defaults on INDEX registers of memory operands / memory patterns (the only place where `==` is applied
     to registers: `mem.index == i_mem.index`) -- this is the assumption of the hand model's `regop_eqb` made explicit;
     on all other registers they are part of the arbitrary rest;
   * dict-valued attributes (post_indexed = {"value": 8}, value = {"mantissa": ...}) are a dict with ARBITRARY items;
   * the identifier payload of an immediate is an arbitrary value that is not None;
   * an object of a foreign class (OOther) has an arbitrary class name outside the matcher's vocabulary;
   * a DB-format dict operand / pattern (ODict k / PRaw k), which the hand model knows by its canonical text k only,
     is the one-key dict {k: None}: equality of two such dicts is equality of the canonical texts, and "*" is a key
     iff k = "*" (excluded by `dict_ok`; the wildcard dict itself is OWild);
   * identity-compared objects (IdentifierOperand ...) carry the identity `e_oid e`; operand side and pattern side have
     their own environment, and the theorems hold whether the two identities are equal (shared object) or not. *)
From Coq Require Import String Ascii List Bool ZArith NArith.
From OV Require Import Model.PyString Model.PyDyn Model.Match.
Import ListNotations.
Open Scope string_scope.

Record env := Env {
  e_oid : N;
  e_extra : string -> list (string * pyval);
  e_dict : list (string * pyval);
  e_some : pyval;
  e_fcls : string }.

Definition ostr (o : option string) : pyval := match o with None => PNone | Some s => PStr s end.

Definition reg_eq_defaults : list (string * pyval) :=
  [("width", PNone); ("regtype", PNone); ("index", PNone); ("mask", PBool false); ("zeroing", PBool false)].

(* ix: the register is the index register of a memory operand / pattern *)
Definition embed_reg (e : env) (ix : bool) (r : regop) : pyval :=
  PObj "RegisterOperand" (e_oid e)
       ([("name", ostr (r_name r)); ("prefix", ostr (r_prefix r)); ("shape", ostr (r_shape r)); ("lanes", ostr (r_lanes r))]
          ++ (if ix then reg_eq_defaults else []) ++ e_extra e "RegisterOperand").

Definition embed_optreg (e : env) (ix : bool) (r : option regop) : pyval :=
  match r with None => PNone | Some x => embed_reg e ix x end.

Definition embed_immval (e : env) (v : immval) : pyval :=
  match v with IVNone => PNone | IVInt z => PInt z | IVStr s => PStr s | IVOther => PDict (e_dict e) end.

Definition embed_ident (e : env) : pyval := PObj "IdentifierOperand" (e_oid e) (e_extra e "IdentifierOperand").

Definition embed_offs (e : env) (o : offs) : pyval :=
  match o with
  | ONone => PNone
  | OImm v => PObj "ImmediateOperand" (e_oid e) (("value", embed_immval e v) :: e_extra e "ImmediateOperand:offset")
  | OIdent => embed_ident e
  end.

Definition embed_post (e : env) (p : postix) : pyval :=
  match p with PostFalse => PBool false | PostTrue => PBool true | PostDict => PDict (e_dict e) end.

Definition embed_memop (e : env) (m : memop) : pyval :=
  PObj "MemoryOperand" (e_oid e)
       ([("base", embed_optreg e false (m_base m)); ("offset", embed_offs e (m_offset m));
         ("index", embed_optreg e true (m_index m)); ("scale", PInt (m_scale m));
         ("pre_indexed", PBool (m_pre m)); ("post_indexed", embed_post e (m_post m))]
          ++ e_extra e "MemoryOperand").

Definition embed_operand (e : env) (o : operand) : pyval :=
  match o with
  | OReg r => embed_reg e false r
  | OMem m => embed_memop e m
  | OImmediate ty v h =>
    PObj "ImmediateOperand" (e_oid e)
         ([("imd_type", ostr ty); ("value", embed_immval e v); ("identifier", if h then e_some e else PNone)]
            ++ e_extra e "ImmediateOperand")
  | OIdentifier => embed_ident e
  | OCond cc => PObj "ConditionOperand" (e_oid e) (("ccode", PStr cc) :: e_extra e "ConditionOperand")
  | OPrefetch => PObj "PrefetchOperand" (e_oid e) (e_extra e "PrefetchOperand")
  | OWild => PDict [("*", PStr "*")]
  | ODict k => PDict [(k, PNone)]
  | OOther => PObj (e_fcls e) (e_oid e) (e_extra e "")
  end.

(* ---- entry patterns *)
Definition embed_mreg (e : env) (ix : bool) (i : mreg) : pyval :=
  match i with MNone => PNone | MStr s => PStr s | MReg r => embed_reg e ix r end.
Definition embed_moff (e : env) (i : moff) : pyval :=
  match i with FNone => PNone | FStr s => PStr s | FIdent => embed_ident e end.
Definition embed_mscale (i : mscale) : pyval :=
  match i with SNone => PNone | SInt z => PInt z | SStr s => PStr s end.
Definition embed_mflag (g : mflag) : pyval :=
  match g with GBool b => PBool b | GStr s => PStr s end.

Definition embed_mempat (e : env) (i : mempat) : pyval :=
  PObj "MemoryOperand" (e_oid e)
       ([("base", embed_mreg e false (mp_base i)); ("offset", embed_moff e (mp_offset i));
         ("index", embed_mreg e true (mp_index i)); ("scale", embed_mscale (mp_scale i));
         ("pre_indexed", embed_mflag (mp_pre i)); ("post_indexed", embed_mflag (mp_post i))]
          ++ e_extra e "MemoryOperand").

Definition embed_pattern (e : env) (p : pattern) : pyval :=
  match p with
  | PReg r => embed_reg e false r
  | PMem m => embed_mempat e m
  | PImm ty => PObj "ImmediateOperand" (e_oid e) (("imd_type", ostr ty) :: e_extra e "ImmediateOperand")
  | PIdent => embed_ident e
  | PCond cc => PObj "ConditionOperand" (e_oid e) (("ccode", PStr cc) :: e_extra e "ConditionOperand")
  | PPrefetch => PObj "PrefetchOperand" (e_oid e) (e_extra e "PrefetchOperand")
  | PFlag => PObj "FlagOperand" (e_oid e) (e_extra e "FlagOperand")
  | PRaw k => PDict [(k, PNone)]
  end.

(* ---- side conditions *)
(* the classes the matcher distinguishes, and the builtins it tests for *)
Definition known_classes : list string :=
  ["RegisterOperand"; "MemoryOperand"; "ImmediateOperand"; "IdentifierOperand"; "ConditionOperand"; "PrefetchOperand";
   "dict"; "str"].
Definition wf_env (e : env) : Prop :=
  e_some e <> PNone /\ forallb (fun c => negb (key_eqb c (e_fcls e))) known_classes = true.
(* a DB-format dict operand is not the wildcard dict *)
Definition dict_ok (o : operand) : Prop := match o with ODict k => String.eqb "*" k = false | _ => True end.

(* ---- the machine-model object: self._data["isa"], self._data["instruction_forms_dict"], anything else *)
Definition mk_self (isa_text : string) (forms : pyval) (more : list (string * pyval)) (rest : list (string * pyval)) : pyval :=
  PObj "MachineModel" 0 (("_data", PDict ([("isa", PStr isa_text); ("instruction_forms_dict", forms)] ++ more)) :: rest).

Definition isa_text_ok (a : isa) (s : string) : Prop :=
  py_lower s = match a with X86 => "x86" | A64 => "aarch64" end.

(* ---- instruction forms and the table *)
Definition embed_pats (e : env) (l : list pattern) : pyval := PList (map (embed_pattern e) l).
Definition embed_ops (e : env) (l : list operand) : pyval := PList (map (embed_operand e) l).
(* an InstructionForm object of the table: .operands is the pattern list *)
Definition embed_form (e : env) (x : entry) : pyval :=
  PObj "InstructionForm" (e_oid e) (("operands", embed_pats e (e_pats x)) :: e_extra e "InstructionForm").
(* the value stored under `key` in instruction_forms_dict: the forms of that name, in file order *)
Definition forms_under (e : env) (tbl : list entry) (key : string) : list pyval :=
  map (embed_form e) (filter (fun x => String.eqb (e_name x) key) tbl).
