(* Python string/list prelude used by the translated definitions (tools/py2coq.py).
   Every definition mirrors one Python operation on ASCII strings; no proofs here. *)
From Coq Require Import String Ascii List Bool Arith NArith ZArith.
Import ListNotations.
Open Scope string_scope.

Definition nl : string := String (ascii_of_nat 10) "".

Definition is_lower (c : ascii) : bool := let n := N_of_ascii c in andb (N.leb 97 n) (N.leb n 122).
Definition is_upper (c : ascii) : bool := let n := N_of_ascii c in andb (N.leb 65 n) (N.leb n 90).
Definition is_digit (c : ascii) : bool := let n := N_of_ascii c in andb (N.leb 48 n) (N.leb n 57).
Definition up_char (c : ascii) : ascii := if is_lower c then ascii_of_N (N_of_ascii c - 32) else c.
Definition low_char (c : ascii) : ascii := if is_upper c then ascii_of_N (N_of_ascii c + 32) else c.

Fixpoint smap (f : ascii -> ascii) (s : string) : string :=
  match s with EmptyString => EmptyString | String c r => String (f c) (smap f r) end.
Definition py_upper := smap up_char.
Definition py_lower := smap low_char.

Fixpoint chars (s : string) : list ascii :=
  match s with EmptyString => [] | String c r => c :: chars r end.
Fixpoint of_chars (l : list ascii) : string :=
  match l with [] => EmptyString | c :: r => String c (of_chars r) end.

Fixpoint py_startswith (s p : string) : bool :=
  match p with
  | EmptyString => true
  | String pc pr => match s with EmptyString => false | String sc sr => andb (Ascii.eqb sc pc) (py_startswith sr pr) end
  end.

(* s[1:] *)
Definition py_slice_from1 (s : string) : string := match s with EmptyString => EmptyString | String _ r => r end.
(* s[:-1] *)
Fixpoint py_slice_to_m1 (s : string) : string :=
  match s with EmptyString => EmptyString | String c EmptyString => EmptyString | String c r => String c (py_slice_to_m1 r) end.

(* s.rstrip(string.digits) *)
Fixpoint py_rstrip_digits (s : string) : string :=
  match s with
  | EmptyString => EmptyString
  | String c r => match py_rstrip_digits r with
                  | EmptyString => if is_digit c then EmptyString else String c EmptyString
                  | r' => String c r'
                  end
  end.

Definition py_str_eq := String.eqb.

(* `a in b` for strings = substring test *)
Fixpoint py_substr (a b : string) : bool :=
  if py_startswith b a then true
  else match b with EmptyString => false | String _ r => py_substr a r end.

(* `x in l` for a list of strings *)
Definition py_in_list (x : string) (l : list string) : bool := existsb (String.eqb x) l.

(* any(f(c) for c in s) *)
Definition py_any_char (f : ascii -> bool) (s : string) : bool := existsb f (chars s).

(* early-exit for loop:  for x in l: body   where body may `return`.
   body x next  = value if the body returns, else  next tt  *)
Definition py_for {A R : Type} (l : list A) (body : A -> (unit -> R) -> R) (after : unit -> R) : R :=
  fold_right (fun x k => fun _ : unit => body x k) after l tt.

(* ---- a tiny backtracking regex matcher (re.match semantics: anchored at the start) ---- *)
Inductive rquant := QOne | QOpt | QStar | QPlus.
Record ritem := { r_set : list (ascii * ascii) ; (* ranges, inclusive *)
                  r_quant : rquant ;
                  r_cap : bool (* inside capture group 1 *) }.

Definition in_ranges (c : ascii) (rs : list (ascii * ascii)) : bool :=
  existsb (fun r => andb (N.leb (N_of_ascii (fst r)) (N_of_ascii c)) (N.leb (N_of_ascii c) (N_of_ascii (snd r)))) rs.

Definition addcap (it : ritem) (c : ascii) (cap : string) : string :=
  if r_cap it then cap ++ String c "" else cap.

Fixpoint re_items (items : list ritem) (s : string) (cap : string) {struct items} : option string :=
  match items with
  | [] => Some cap
  | it :: rest =>
    let star :=
      fix star (s : string) (cap : string) {struct s} : option string :=
        match s with
        | String c s' =>
          if in_ranges c (r_set it)
          then match star s' (addcap it c cap) with Some r => Some r | None => re_items rest s cap end
          else re_items rest s cap
        | EmptyString => re_items rest s cap
        end in
    match r_quant it with
    | QOne => match s with
              | String c s' => if in_ranges c (r_set it) then re_items rest s' (addcap it c cap) else None
              | EmptyString => None
              end
    | QOpt => match s with
              | String c s' =>
                if in_ranges c (r_set it)
                then match re_items rest s' (addcap it c cap) with Some r => Some r | None => re_items rest s cap end
                else re_items rest s cap
              | EmptyString => re_items rest s cap
              end
    | QStar => star s cap
    | QPlus => match s with
               | String c s' => if in_ranges c (r_set it) then star s' (addcap it c cap) else None
               | EmptyString => None
               end
    end
  end.

(* re.match(pattern, s): Some group1 / None *)
Definition re_match (items : list ritem) (s : string) : option string := re_items items s "".
Definition is_some {A} (o : option A) : bool := match o with Some _ => true | None => false end.
Definition re_group1 (o : option string) : string := match o with Some g => g | None => "" end.

(* decimal rendering of small naturals (register numbers) *)
Fixpoint nat_digits (fuel n : nat) (acc : string) : string :=
  match fuel with
  | O => acc
  | S f => let acc' := String (ascii_of_nat (48 + n mod 10)) acc in
           if Nat.eqb (n / 10) 0 then acc' else nat_digits f (n / 10) acc'
  end.
Definition string_of_nat (n : nat) : string := nat_digits 20 n "".
