(* C13: exact fixed-point decimal formatting of a binary64 value -- what CPython's '{:.Nf}'.format(x) prints --
   and the reader of such decimals.  No proofs in this file (Proofs/Fmt.v). *)
From Coq Require Import ZArith QArith Qabs List Bool String Ascii.
From Coq Require Import PrimFloat SpecFloat FloatOps.
From OV Require Import Model.Num.
Import ListNotations.
Open Scope string_scope.

(* ------------------------------------------------------------------ exact decoding of a double *)
Inductive fdec :=
| FD_fin (neg : bool) (num : Z) (den : positive)     (* (-1)^neg * num / den, num >= 0 *)
| FD_inf (neg : bool)
| FD_nan.

Definition f_decode (x : float) : fdec :=
  match Prim2SF x with
  | S754_zero s => FD_fin s 0 1
  | S754_finite s m e =>
    match e with
    | Z0 => FD_fin s (Zpos m) 1
    | Zpos pe => FD_fin s (Zpos m * 2 ^ Zpos pe) 1
    | Zneg pe => FD_fin s (Zpos m) (2 ^ pe)%positive
    end
  | S754_infinity s => FD_inf s
  | S754_nan => FD_nan
  end.

(* ------------------------------------------------------------------ digit generator *)
Definition digit_char (d : Z) : ascii := ascii_of_nat (48 + Z.to_nat d).

(* the k low decimal digits of v (most significant first) in front of acc *)
Fixpoint digits_acc (k : nat) (v : Z) (acc : string) : string :=
  match k with
  | O => acc
  | S k' => digits_acc k' (v / 10) (String (digit_char (v mod 10)) acc)
  end.
Definition digits_fix (k : nat) (v : Z) : string := digits_acc k v EmptyString.

(* drop leading zeros, keep the last character *)
Fixpoint strip0 (s : string) : string :=
  match s with
  | EmptyString => EmptyString
  | String c r =>
    match r with
    | EmptyString => s
    | _ => if Ascii.eqb c "0"%char then strip0 r else s
    end
  end.

(* decimal digits of v >= 0 without leading zeros ("0" for 0): S (log2 v) digits always suffice *)
Definition int_digits (v : Z) : string := strip0 (digits_fix (S (Z.to_nat (Z.log2 v))) v).

(* ------------------------------------------------------------------ '{:.nf}'.format(x) *)
Definition pow10 (n : nat) : Z := 10 ^ Z.of_nat n.

Definition fmt_units (n : nat) (num : Z) (den : positive) : Z := Zround_half_even (num * pow10 n) den.

Definition fmt_fixed (n : nat) (x : float) : string :=
  match f_decode x with
  | FD_fin s num den =>
    let N := fmt_units n num den in
    (if s then "-" else "") ++ int_digits (N / pow10 n)
      ++ match n with O => "" | _ => String "."%char (digits_fix n (N mod pow10 n)) end
  | FD_inf s => if s then "-inf" else "inf"
  | FD_nan => "nan"
  end.

(* ------------------------------------------------------------------ reader *)
Record dec := { d_neg : bool; d_units : Z; d_scale : nat }.   (* (-1)^neg * units / 10^scale *)

Definition digit_val (c : ascii) : option Z :=
  let n := nat_of_ascii c in
  if andb (48 <=? n)%nat (n <=? 57)%nat then Some (Z.of_nat (n - 48)) else None.

(* state: digits read so far as an integer, dot seen, digits after the dot.  Lenient on degenerate strings
   ("" after the sign, a lone "."); fmt_fixed never produces them. *)
Fixpoint read_go (s : string) (acc : Z) (dot : bool) (k : nat) : option (Z * nat) :=
  match s with
  | EmptyString => Some (acc, k)
  | String c r =>
    if Ascii.eqb c "."%char then (if dot then None else read_go r acc true k)
    else match digit_val c with
         | Some d => read_go r (acc * 10 + d) dot (if dot then S k else k)
         | None => None
         end
  end.

Definition read_decimal (s : string) : option dec :=
  match s with
  | String c r =>
    if Ascii.eqb c "-"%char
    then match read_go r 0 false 0 with Some (u, k) => Some {| d_neg := true; d_units := u; d_scale := k |} | None => None end
    else match read_go s 0 false 0 with Some (u, k) => Some {| d_neg := false; d_units := u; d_scale := k |} | None => None end
  | EmptyString => None
  end.

Definition dec_to_Q (d : dec) : Q :=
  let q := Qmake (d_units d) (Z.to_pos (pow10 (d_scale d))) in if d_neg d then Qopp q else q.

(* round half even of a rational at n decimals, as a rational *)
Definition Qround_he (n : nat) (q : Q) : Q :=
  let a := Qabs q in
  let N := Zround_half_even (Qnum a * pow10 n) (Qden a) in
  let r := Qmake N (Z.to_pos (pow10 n)) in
  if (Qnum q <? 0)%Z then Qopp r else r.

(* sign bit of a double (true for -0.0) *)
Definition f_signbit (x : float) : bool :=
  match Prim2SF x with
  | S754_zero s | S754_infinity s | S754_finite s _ _ => s
  | S754_nan => false
  end.
