(* C08 -- translator tie for ArchSemantics.assign_tp_lt and the hw_model getters it calls.

   This file is the STATIC part of the tie (no proofs):
     1. the representation of the Python objects the translated functions touch (instruction form, model entry,
        table rows as the getters hand them back) and the Python constructs the generated text (Gen/CostGen.v,
        tools/gen_c08.py) is written in (py_* : every place where the Python raises is an explicit error);
     2. the SPECIFICATION the generated assign_tp_lt is proved equal to (PropsGen/C08gen.v): [spec_cost], i.e. the hand
        model Model/Costing.v + Model/Rows.v applied to the look-ups the code performs, written as a function of the
        form and of the two parameters `get_instruction` (C07) and `get_reg_type` (parser).

   Error convention: the one exception class outside Model/Pressure.v's [err] that can occur on this path is the
   AttributeError of the x86 matcher on a register without a name (Model/Match.v: None).  It is carried in the slot
   [EAttr] (= the constructor EFuel, which nothing else on this path produces: no fuel-driven loop is translated). *)
From Coq Require Import ZArith List Bool String Ascii.
From OV Require Import Model.PyString Model.Match.
From OV Require Import Model.Num Model.Pressure Model.Costing Model.Rows.
Import ListNotations.
Open Scope string_scope.

Definition EAttr : err := EFuel.
Definition lift {A} (o : option A) : res A := match o with Some x => Ok x | None => Err EAttr end.

(* a local variable that is bound on some paths only (None = unbound): using it unbound is UnboundLocalError, which has no
   constructor in [err] either and shares the slot *)
Definition py_bound {A} (o : option A) : res A := lift o.

(* self._isa / self._data["isa"].lower() *)
Definition isa_str (i : Costing.isa) : string := match i with X86 => "x86" | A64 => "aarch64" end.

(* ------------------------------------------------------------------ generic Python constructs *)
Definition py_len {A} (l : list A) : Z := Z.of_nat (List.length l).
Definition py_range (n : Z) : list Z := map Z.of_nat (seq 0 (Z.to_nat n)).
Definition py_zip {A B} (a : list A) (b : list B) : list (A * B) := combine a b.
Definition py_is_nil {A} (l : list A) : bool := match l with [] => true | _ => false end.
(* [x for x in l if f(x)] where f may raise *)
Fixpoint py_filter_res {A} (f : A -> res bool) (l : list A) : res (list A) :=
  match l with
  | [] => Ok []
  | x :: t => b <- f x ;; r <- py_filter_res f t ;; Ok (if b then x :: r else r)
  end.
(* d[k] on a str-keyed dict *)
Definition py_assoc {A} (l : list (string * A)) (k : string) : res A := Costing.assoc k l.
(* mm["key"] for a top-level key that may be absent *)
Definition py_getitem_opt {A} (o : option A) : res A := match o with Some x => Ok x | None => Err EKey end.
(* s[-1] *)
Definition py_str_last (s : string) : res string :=
  match last_char s with Some c => Ok (String c "") | None => Err EIndex end.
(* s.index(c) for a one-character needle: ValueError when absent *)
Fixpoint py_str_index_from (s : string) (c : ascii) (k : nat) : res nat :=
  match s with
  | EmptyString => Err EValue
  | String d r => if Ascii.eqb d c then Ok k else py_str_index_from r c (S k)
  end.
Definition py_str_index (s needle : string) : res nat :=
  match needle with
  | String c EmptyString => py_str_index_from s c 0
  | _ => Err EAttr                       (* only one-character needles are modelled *)
  end.
(* s[:k] *)
Fixpoint py_str_prefix (s : string) (k : nat) : string :=
  match k, s with
  | S j, String c r => String c (py_str_prefix r j)
  | _, _ => EmptyString
  end.

(* ------------------------------------------------------------------ operands, registers, flags *)
Definition is_mem (o : operand) : bool := match o with OMem _ => true | _ => false end.
(* [x for x in l if isinstance(x, MemoryOperand)] *)
Definition py_mems (l : list operand) : list memop := flat_map (fun o => match o with OMem m => [m] | _ => [] end) l.
(* RegisterOperand(name=n) *)
Definition reg_of_name (n : option string) : regop := R n None None None.
(* truthiness of MemoryOperand.post_indexed *)
Definition postix_truth (p : postix) : bool := match p with PostFalse => false | _ => true end.
(* l.index({"*": "*"}): position of the first wildcard dict; ValueError when absent.  The operand classes' __eq__
   answer False for a dict (C07's tie), so no other operand equals it.  Only this needle is modelled. *)
Fixpoint index_wild (ops : list operand) (k : nat) : res nat :=
  match ops with
  | [] => Err EValue
  | OWild :: _ => Ok k
  | _ :: r => index_wild r (S k)
  end.
Definition py_index_operand (l : list operand) (x : operand) : res nat :=
  match x with OWild => index_wild l 0 | _ => Err EAttr end.

Definition py_in_flag (x : flag) (l : list flag) : bool := existsb (flag_eqb x) l.
(* l.remove(x): first occurrence; ValueError when absent *)
Fixpoint py_remove_flag (l : list flag) (x : flag) : res (list flag) :=
  match l with
  | [] => Err EValue
  | y :: r => if flag_eqb y x then Ok r else r' <- py_remove_flag r x ;; Ok (y :: r')
  end.
Definition ALL_FLAGS : list flag := [F_HAS_LD; F_HAS_ST; F_LD; F_TP_UNKWN; F_LT_UNKWN; F_NOT_BOUND].
(* a flag list as a SET, in one fixed order *)
Definition canon_flags (l : list flag) : list flag := filter (fun f => py_in_flag f l) ALL_FLAGS.
(* list(set(l)): the iteration order of a set is unspecified; the translation picks the canonical one and every
   comparison of flag lists is made modulo [canon_flags] *)
Definition py_list_set_flags (l : list flag) : list flag := canon_flags l.

(* ------------------------------------------------------------------ matcher / _check_operands (C07: Model/Match.v) *)
(* what `m[0]` of a getter row is: a pattern of the load table (has `dst`), of the store table (has `src`), or --
   default row `(memory, default)` -- the memory OPERAND itself (its dst/src are None for every parsed operand) *)
Inductive rowhead := HPat (p : mempat) (dst src : option string) | HOp (m : memop).
Definition rh_dst (h : rowhead) : option string := match h with HPat _ d _ => d | HOp _ => None end.
Definition rh_src (h : rowhead) : option string := match h with HPat _ _ s => s | HOp _ => None end.
Definition ld_head {U} (r : row U) : rowhead := HPat (rw_pat r) (rw_typ r) None.
Definition st_head {U} (r : row U) : rowhead := HPat (rw_pat r) None (rw_typ r).
Definition ld_item {U} (r : row U) : rowhead * U := (ld_head r, rw_uops r).
Definition st_item {U} (r : row U) : rowhead * U := (st_head r, rw_uops r).

Definition py_is_x86_mem_type (h : rowhead) (m : memop) : res bool :=
  match h with HPat p _ _ => lift (is_x86_mem_type p m) | HOp _ => Err EAttr end.
Definition py_is_a64_mem_type (h : rowhead) (m : memop) : res bool :=
  match h with HPat p _ _ => Ok (is_a64_mem_type p m) | HOp _ => Err EAttr end.
(* MachineModel._check_operands(i_operand = a register, operand = a register) *)
Definition py_check_operands (i : Costing.isa) (a b : regop) : res bool :=
  lift (check_operand (isa_of i) (PReg a) (OReg b)).

(* ------------------------------------------------------------------ numbers that may be None *)
Section Numbers.
  Context {T : Type} (N : NumOps T).
  (* an int used as a number: the int 0 is the number 0 (n0), as the literal 0 / 0.0 *)
  Definition py_num_of_int (z : Z) : T := if Z.eqb z 0 then n0 N else nofZ N z.
  Definition py_truth_onum (x : option T) : bool := match x with None => false | Some v => negb (neqb N v (n0 N)) end.
  (* None + x : TypeError *)
  Definition py_add_onum (a : option T) (b : T) : res T := match a with Some x => Ok (nadd N x b) | None => Err EType end.
  (* max(a, b): the first maximal argument *)
  Definition py_max2 (a b : T) : T := if nltb N a b then b else a.
  Definition py_max2_onum (a : T) (b : option T) : res T := match b with Some y => Ok (py_max2 a y) | None => Err EType end.
End Numbers.

(* ------------------------------------------------------------------ objects *)
Section Objects.
  Context {T : Type}.
  (* a machine-model entry (InstructionForm of the DB) as far as costing reads it *)
  Record pyentry := mkpyentry {
    en_throughput : option T; en_latency : option T; en_port_pressure : @uops T; en_operands : list pattern }.
  (* the instruction form being costed: what assign_tp_lt reads, and the attributes it sets *)
  Record pyform := mkpyform {
    fo_mnemonic : option string; fo_operands : list operand; fo_flags : list flag;
    fo_source : list operand; fo_destination : list operand; fo_src_dst : list operand;
    fo_port_pressure : list T; fo_port_uops : @puops T;
    fo_throughput : option T; fo_latency : option T; fo_latency_wo_load : option T;
    fo_latency_cp : Z; fo_latency_lcd : Z }.
  Definition set_fo_flags (f : pyform) (v : list flag) : pyform :=
    mkpyform (fo_mnemonic f) (fo_operands f) v (fo_source f) (fo_destination f) (fo_src_dst f) (fo_port_pressure f)
             (fo_port_uops f) (fo_throughput f) (fo_latency f) (fo_latency_wo_load f) (fo_latency_cp f) (fo_latency_lcd f).
  Definition set_fo_port_pressure (f : pyform) (v : list T) : pyform :=
    mkpyform (fo_mnemonic f) (fo_operands f) (fo_flags f) (fo_source f) (fo_destination f) (fo_src_dst f) v
             (fo_port_uops f) (fo_throughput f) (fo_latency f) (fo_latency_wo_load f) (fo_latency_cp f) (fo_latency_lcd f).
  Definition set_fo_port_uops (f : pyform) (v : @puops T) : pyform :=
    mkpyform (fo_mnemonic f) (fo_operands f) (fo_flags f) (fo_source f) (fo_destination f) (fo_src_dst f) (fo_port_pressure f)
             v (fo_throughput f) (fo_latency f) (fo_latency_wo_load f) (fo_latency_cp f) (fo_latency_lcd f).
  Definition set_fo_throughput (f : pyform) (v : option T) : pyform :=
    mkpyform (fo_mnemonic f) (fo_operands f) (fo_flags f) (fo_source f) (fo_destination f) (fo_src_dst f) (fo_port_pressure f)
             (fo_port_uops f) v (fo_latency f) (fo_latency_wo_load f) (fo_latency_cp f) (fo_latency_lcd f).
  Definition set_fo_latency (f : pyform) (v : option T) : pyform :=
    mkpyform (fo_mnemonic f) (fo_operands f) (fo_flags f) (fo_source f) (fo_destination f) (fo_src_dst f) (fo_port_pressure f)
             (fo_port_uops f) (fo_throughput f) v (fo_latency_wo_load f) (fo_latency_cp f) (fo_latency_lcd f).
  Definition set_fo_latency_wo_load (f : pyform) (v : option T) : pyform :=
    mkpyform (fo_mnemonic f) (fo_operands f) (fo_flags f) (fo_source f) (fo_destination f) (fo_src_dst f) (fo_port_pressure f)
             (fo_port_uops f) (fo_throughput f) (fo_latency f) v (fo_latency_cp f) (fo_latency_lcd f).
  Definition set_fo_latency_cp (f : pyform) (v : Z) : pyform :=
    mkpyform (fo_mnemonic f) (fo_operands f) (fo_flags f) (fo_source f) (fo_destination f) (fo_src_dst f) (fo_port_pressure f)
             (fo_port_uops f) (fo_throughput f) (fo_latency f) (fo_latency_wo_load f) v (fo_latency_lcd f).
  Definition set_fo_latency_lcd (f : pyform) (v : Z) : pyform :=
    mkpyform (fo_mnemonic f) (fo_operands f) (fo_flags f) (fo_source f) (fo_destination f) (fo_src_dst f) (fo_port_pressure f)
             (fo_port_uops f) (fo_throughput f) (fo_latency f) (fo_latency_wo_load f) (fo_latency_cp f) v.

  (* instruction_form.port_uops = <entry>.port_pressure (a list or a dict of alternatives) *)
  Definition puops_of_uops (u : @uops T) : @puops T := match u with UList l => PList l | UDict a => PDict a end.
  (* list(chain(u, d)): iterating a dict yields its KEYS (0..n-1) *)
  Definition py_chain_uops (u : @uops T) (d : list (@uop T)) : @puops T :=
    match u with UList l => PList (l ++ d) | UDict alts => PKeys (List.length alts) d end.
End Objects.
Arguments pyentry : clear implicits. Arguments pyform : clear implicits.
Arguments mkpyentry {T}. Arguments mkpyform {T}.

(* ------------------------------------------------------------------ the specification (hand model on the code's look-ups) *)
Section Spec.
  Context {T : Type} (N : NumOps T).
  Variable gi : string -> list operand -> option (pyentry T).     (* MachineModel.get_instruction (C07) *)
  Variable grt : pattern -> res string.                            (* parser.get_reg_type *)

  Definition entry_of (e : pyentry T) : Costing.entry (T:=T) :=
    mkentry (en_throughput e) (en_latency e) (en_port_pressure e).
  (* substitute_mem_address *)
  Definition substitute (ops : list operand) : list operand :=
    map (fun o => match o with OMem _ => OWild | _ => o end) ops.
  (* get_reg_type(entry.operands[operands.index(wildcard)]) *)
  Definition reg_type_of (e : pyentry T) (sub : list operand) : res string :=
    i <- index_wild sub 0 ;; p <- nth_res (en_operands e) i ;; grt p.
  Definition regq (name : string) (sub : list operand) : option (Costing.entry (T:=T) * res string) :=
    option_map (fun e => (entry_of e, reg_type_of e sub)) (gi name sub).
  Definition wb (m : memop) : bool := orb (postix_truth (m_post m)) (m_pre m).
  (* the mnemonic of the second look-up, if the code makes one *)
  Definition stripped_name (a : Costing.isa) (mn : string) : option string :=
    match fallback_name (isa_of a) mn with Some (Some s) => Some s | _ => None end.

  Definition lookup_of (a : Costing.isa) (mn : string) (f : pyform T) : Costing.lookup (T:=T) :=
    let ops := fo_operands f in
    let sub := substitute ops in
    let st := stripped_name a mn in
    mklookup (py_in_flag F_HAS_LD (fo_flags f)) (py_in_flag F_HAS_ST (fo_flags f))
             (match st with Some _ => true | None => false end)
             (option_map entry_of (gi mn ops))
             (match st with Some s => option_map entry_of (gi s ops) | None => None end)
             (regq mn sub)
             (match st with Some s => regq s sub | None => None end)
             [] []
             (existsb is_mem (fo_destination f))
             (map wb (py_mems (fo_src_dst f))).

  Definition memq_of (f : pyform T) : memq :=
    mkmemq (hd_error (py_mems (fo_source f ++ fo_src_dst f))) (hd_error (py_mems (fo_destination f ++ fo_src_dst f))).

  Definition line_of (a : Costing.isa) (f : pyform T) : rline (T:=T) :=
    match fo_mnemonic f with
    | None => RNoInstr
    | Some mn => RInstr (lookup_of a mn f) (memq_of f)
    end.

  (* x86, empty mnemonic, no direct entry: `mnemonic[-1]` raises IndexError (no parser delivers an empty mnemonic) *)
  Definition empty_mnemonic_raises (m : mach (T:=T)) (f : pyform T) : bool :=
    match m_isa m, fo_mnemonic f with
    | X86, Some "" => match gi "" (fo_operands f) with None => true | Some _ => false end
    | _, _ => false
    end.

  (* the look-up cascade: the name as written, then (if the code makes a second look-up) the stripped name *)
  Definition cascade {A} (a : Costing.isa) (mn : string) (g : string -> option A) : option A :=
    match g mn with
    | Some e => Some e
    | None => match stripped_name a mn with Some s => g s | None => None end
    end.

  (* what assign_tp_lt computes for the form: Model/Rows.v + Model/Costing.v on the look-ups of the code.
     None: the matcher raised while rows were selected (outside the operands a parser delivers: Proofs/Rows.v) *)
  Definition spec_cost (m : mach (T:=T)) (tb : tables (T:=T)) (f : pyform T) : option (res (cost (T:=T))) :=
    if empty_mnemonic_raises m f then Some (Err EIndex)
    else cost_line_rows N m tb (line_of (m_isa m) f).

  (* the costed attributes of a form, flags as a set *)
  Definition cost_of_form (f : pyform T) : res (cost (T:=T)) :=
    match fo_throughput f, fo_latency f, fo_latency_wo_load f with
    | Some tp, Some lat, Some lw =>
      Ok (mkcost (fo_port_uops f) (fo_port_pressure f) lat lw tp (canon_flags (fo_flags f)))
    | _, _, _ => Err EEmptyGetter          (* an attribute is still None: never produced (theorem) *)
    end.
  Definition observe (r : res (pyform T)) : res (cost (T:=T)) := f <- r ;; cost_of_form f.

  (* a form as the parser and assign_src_dst deliver it *)
  Definition fresh_form (f : pyform T) : Prop :=
    fo_port_uops f = PList [] /\ NoDup (fo_flags f) /\ (forall x, In x (fo_flags f) -> x = F_HAS_LD \/ x = F_HAS_ST) /\
    (fo_mnemonic f = None -> fo_flags f = []).
End Spec.
