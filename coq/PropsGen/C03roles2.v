(* Property C03 -- translation tie (T) for the role assignment of osaca/semantics/isa_semantics.py, second part.

   PropsGen/C03roles.v proves `_apply_found_ISA_data` of the REGENERATED code (Gen/RolesGen.v, rewritten by tools/gen_roles.py on every
   run) only for entries without hidden operands.  This file proves, against the same regenerated text,
     (1) `_apply_found_ISA_data` in full: the role loop AND the loop over the hidden operands (Operand objects and dicts),
     (2) the default-role helpers `_get_regular_source_operands` / `_get_regular_destination_operands`
         (x86: the last operand is the destination; AArch64: the first; a single operand is a source),
   as the generic role functions `apply_found_g` / `default_roles_g`, which ARE Model/Roles.v's `apply_found` / `default_roles`
   (lemmas `apply_found_is_g`, `default_roles_is_g`: the model is the instance "items = operands").
   The look-up cascade, the write-back loops, HAS_LD/HAS_ST and the composition are in PropsGen/C03roles3.v.
   Compiled by the check (not by make). *)
From Coq Require Import ZArith QArith List Bool String Lia.
From OV Require Import Model.Num Model.PyLcd Model.Deps Model.Roles Model.RolesDyn Model.RolesSel Proofs.DgSpec Proofs.Roles Gen.RolesGen.
From OV Require Import PropsGen.C03roles.
Import ListNotations. Open Scope string_scope. Open Scope list_scope.

(* ---------------------------------------------------------------- the role functions of Model/Roles.v on items of any type *)
Definition apply_found_g {A} (roles : list (bool * bool)) (hs : list A) (hr : list (bool * bool)) (idiom alleq : bool) (xs : list A)
  : list A * list A * list A :=
  if andb idiom alleq then ([], xs ++ hs, [])
  else (by_role_g xs roles is_src ++ by_role_g hs hr is_src,
        by_role_g xs roles is_dst ++ by_role_g hs hr hid_dst,
        by_role_g xs roles is_srcdst ++ by_role_g hs hr is_srcdst).
(* forms without an ISA entry.  x86: all but the last operand are read, the last is written; AArch64: the first is written, the
   others are read; a single operand is read *)
Definition default_src_g {A} (x86 : bool) (xs : list A) : list A :=
  match xs with [a] => [a] | _ => if x86 then removelast xs else tl xs end.
Definition default_dst_g {A} (x86 : bool) (xs : list A) : list A :=
  match xs with [a] => [] | _ => if x86 then skipn (List.length xs - 1) xs else firstn 1 xs end.
Definition default_roles_g {A} (x86 : bool) (xs : list A) : list A * list A * list A := (default_src_g x86 xs, default_dst_g x86 xs, []).

Lemma by_role_is_g (o : list opnd) roles want : by_role o roles want = by_role_g o roles want.
Proof. reflexivity. Qed.
(* Model/Roles.v's apply_found / default_roles are these functions on the operands *)
Lemma apply_found_is_g (e : isa_entry) (ops : list popnd) :
  apply_found e ops = apply_found_g (e_roles e) (map fst (e_hidden e)) (map snd (e_hidden e)) (e_idiom e) (all_equal_keys ops) (map fst ops).
Proof. unfold apply_found, apply_found_g. destruct (andb _ _); reflexivity. Qed.
Lemma skipn_last {A} (d : A) (l : list A) : l <> [] -> skipn (List.length l - 1) l = [last l d].
Proof.
  induction l as [|x l IH]; [congruence|]. intros _. destruct l as [|y l]; [reflexivity|].
  cbn [List.length] in *. replace (Datatypes.S (Datatypes.S (List.length l)) - 1)%nat with (Datatypes.S (List.length l)) by lia.
  replace (Datatypes.S (List.length l) - 1)%nat with (List.length l) in IH by lia.
  cbn [skipn]. rewrite IH by congruence. reflexivity.
Qed.
Lemma default_roles_is_g (x86 : bool) (ops : list popnd) : default_roles x86 ops = default_roles_g x86 (map fst ops).
Proof.
  unfold default_roles, default_roles_g, default_src_g, default_dst_g. destruct (map fst ops) as [|a [|b l]] eqn:E; [destruct x86; reflexivity|reflexivity|].
  destruct x86; [|reflexivity]. rewrite (skipn_last OOther) by congruence. reflexivity.
Qed.
Lemma by_role_g_map {A B} (f : A -> B) xs roles want : by_role_g (map f xs) roles want = map f (by_role_g xs roles want).
Proof.
  unfold by_role_g. revert roles. induction xs as [|x xs IH]; intros [|r roles]; [reflexivity..|].
  cbn [map combine filter snd]. destruct (want r); cbn [map fst]; rewrite IH; reflexivity.
Qed.
Definition map3 {A B} (f : A -> B) (t : list A * list A * list A) : list B * list B * list B :=
  (map f (fst (fst t)), map f (snd (fst t)), map f (snd t)).
Lemma apply_found_g_map {A B} (f : A -> B) roles hs hr idiom alleq xs :
  apply_found_g roles (map f hs) hr idiom alleq (map f xs) = map3 f (apply_found_g roles hs hr idiom alleq xs).
Proof.
  unfold apply_found_g, map3. destruct (andb idiom alleq); cbn [fst snd map]; rewrite ?by_role_g_map, ?map_app; reflexivity.
Qed.
Lemma removelast_map {A B} (f : A -> B) (xs : list A) : removelast (map f xs) = map f (removelast xs).
Proof. induction xs as [|x [|y r] IH]; [reflexivity..|]. cbn [map removelast] in *. rewrite IH. reflexivity. Qed.
Lemma default_src_g_map {A B} (f : A -> B) x86 xs : default_src_g x86 (map f xs) = map f (default_src_g x86 xs).
Proof.
  unfold default_src_g. destruct xs as [|a [|b l]]; [destruct x86; reflexivity|reflexivity|].
  change (map f (a :: b :: l)) with (f a :: f b :: map f l) at 1. cbv iota. destruct x86; [apply removelast_map | reflexivity].
Qed.
Lemma default_dst_g_map {A B} (f : A -> B) x86 xs : default_dst_g x86 (map f xs) = map f (default_dst_g x86 xs).
Proof.
  unfold default_dst_g. destruct xs as [|a [|b l]]; [destruct x86; reflexivity|reflexivity|].
  change (map f (a :: b :: l)) with (f a :: f b :: map f l) at 1. cbv iota. destruct x86; [|reflexivity].
  change (f a :: f b :: map f l) with (map f (a :: b :: l)). rewrite map_length, skipn_map. reflexivity.
Qed.
Lemma default_roles_g_map {A B} (f : A -> B) x86 xs : default_roles_g x86 (map f xs) = map3 f (default_roles_g x86 xs).
Proof. unfold default_roles_g, map3. cbn [fst snd map]. rewrite default_src_g_map, default_dst_g_map. reflexivity. Qed.

Section Eq.
  Context {T : Type} (N : NumOps T).
  Notation pv := (pv T).
  Variable p_get_instruction : pv -> pv -> dres pv.

  Notation OD := (fun st : list pv * list pv * list pv => emb_opdict (fst (fst st)) (snd (fst st)) (snd st)).
  Definition emb3 (st : list pv * list pv * list pv) : pv := emb_opdict (fst (fst st)) (snd (fst st)) (snd st).

  (* ---- hidden operands of an ISA entry: Operand objects with the attributes source / destination, or dicts with those keys ---- *)
  Inductive hid_ok : pv -> bool * bool -> Prop :=
  | hid_obj c fs r : is_operand_cls c = true -> hid_ok (emb_hidden c fs r) r
  | hid_dict r rest : hid_ok (VDict (("source", VBool (fst r)) :: ("destination", VBool (snd r)) :: rest)) r.

  Lemma hidden_loop (body : pv -> list pv -> pv -> dres (ctl (list pv * pv) pv)) :
    (forall x r rs st, hid_ok x r -> body x rs (OD st) = DOk (CNext (rs, OD (pushh st r x)))) ->
    forall hs hr st, Forall2 hid_ok hs hr ->
      py_loop_n (List.length hs) hs (OD st) body
      = DOk (inl (OD (fst (fst st) ++ by_role_g hs hr is_src, snd (fst st) ++ by_role_g hs hr hid_dst, snd st ++ by_role_g hs hr is_srcdst))).
  Proof.
    intros H hs hr st F. revert st. induction F as [|x r hs hr Hx F IH]; intros [[s d] sd].
    - cbn. unfold by_role_g. cbn. rewrite !app_nil_r. reflexivity.
    - cbn [List.length py_loop_n]. rewrite (H x r hs (s, d, sd) Hx). cbn [dbind]. rewrite IH.
      rewrite !by_role_g_step. destruct r as [[|] [|]]; cbn [pushh fst snd andb is_src hid_dst is_srcdst negb app]; rewrite <- ?app_assoc; reflexivity.
  Qed.

  (* (1) _apply_found_ISA_data in full: for every entry (roles, hidden operands with THEIR roles, idiom flag) and every operand list *)
  Theorem C03gen_apply_found_is_model :
    forall (roles : list (bool * bool)) (hs : list pv) (hr : list (bool * bool)) (idiom : bool) (xs : list pv) (alleq : bool),
      (List.length roles <= List.length xs)%nat ->
      py_eq (VList (tl xs)) (VList (removelast xs)) = DOk alleq ->
      Forall2 hid_ok hs hr ->
      g_apply_found_ISA_data N (emb_entry roles hs idiom) (VList xs) = DOk (emb3 (apply_found_g roles hs hr idiom alleq xs)).
  Proof.
    intros roles hs hr idiom xs alleq L Heq Hh. unfold apply_found_g, emb3.
    destruct (andb idiom alleq) eqn:Eia.
    { rewrite (C03gen_apply_found_is_model_partial N roles hs idiom xs alleq L Heq) by (rewrite Eia; discriminate). rewrite Eia. reflexivity. }
    unfold g_apply_found_ISA_data.
    cbn [py_setitem str_set String.eqb Ascii.eqb Bool.eqb dbind emb_entry py_getattr attr_assoc attr_eqb attr_code Nat.eqb py_truth].
    assert (Hne : py_ne (VList hs) (VList []) = DOk (match hs with [] => false | _ => true end)).
    { unfold py_ne. rewrite py_eq_VList. destruct hs; reflexivity. }
    assert (ZI : (if idiom then (t3_ <~ py_slice (VList xs) (VInt 1) VNone ;; t4_ <~ py_slice (VList xs) VNone (VInt (-1)) ;; py_eq t3_ t4_) else DOk false) = DOk false).
    { rewrite <- Eia. destruct idiom; [|reflexivity]. rewrite slice_from1, slice_to_m1. cbn [dbind andb]. exact Heq. }
    rewrite ZI. cbn [dbind]. clear ZI.
    cbn [fbind dbind py_enumerate py_iter].
    rewrite map_length, combine_map_r', map_map. cbn [fst snd].
    change (py_loop ?l ?s ?b) with (py_loop_n (List.length l) l s b). rewrite map_length, combine_length, seq_length, Nat.min_id.
    match goal with |- context [py_loop_n _ _ _ ?b] => set (body := b) end.
    assert (Hb : forall i r x rs st, nth_error xs i = Some x ->
               body (VTuple [VInt (Z.of_nat i); emb_role r]) rs (OD st) = DOk (CNext (rs, OD (push st r x)))).
    { intros i r x rs [[s d] sd] Hx. subst body. cbv beta. cbn [py_unpack2 dbind].
      destruct r as [[|] [|]];
        repeat (cbn [emb_role fst snd py_getattr attr_assoc attr_eqb attr_code Nat.eqb dbind py_truth fbind
                     py_append py_setitem str_set String.eqb Ascii.eqb Bool.eqb loop_end push andb emb_opdict];
                fold (emb_opdict s d sd);
                rewrite ?od_s, ?od_d, ?od_sd, ?(getitem_nth _ _ _ Hx));
        reflexivity. }
    pose proof (roles_loop body xs Hb roles [] xs ([], [], []) eq_refl L) as RL. cbn [List.length fst snd app] in RL.
    change (VDict [("source", VList []); ("destination", VList []); ("src_dst", VList [])]) with (emb_opdict (@nil pv) [] []).
    rewrite RL. clear RL Hb body. cbn [dbind fst snd app]. rewrite Hne. cbn [dbind].
    destruct hs as [|h hs'] eqn:Ehs.
    { inversion Hh; subst. unfold by_role_g at 2 4 6. cbn [combine filter map]. rewrite !app_nil_r. reflexivity. }
    rewrite <- Ehs in *. cbn [fbind dbind py_iter].
    change (py_loop ?l ?s ?b) with (py_loop_n (List.length l) l s b).
    match goal with |- context [py_loop_n _ _ _ ?b] => set (body := b) end.
    assert (Hb : forall x r rs st, hid_ok x r -> body x rs (OD st) = DOk (CNext (rs, OD (pushh st r x)))).
    { intros x r rs [[s d] sd] Hx. subst body. cbv beta. destruct Hx as [c fs r Hc | r rest].
      - assert (Hi : py_isinstance (emb_hidden c fs r) C_Operand = true).
        { unfold emb_hidden. cbn [py_isinstance]. rewrite Hc. destruct c; reflexivity. }
        rewrite Hi.
        destruct r as [[|] [|]];
          repeat (cbn [emb_hidden fst snd py_getattr attr_assoc attr_eqb attr_code Nat.eqb dbind py_truth fbind
                       py_append py_setitem str_set String.eqb Ascii.eqb Bool.eqb loop_end pushh andb emb_opdict];
                  fold (emb_opdict s d sd);
                  rewrite ?od_s, ?od_d, ?od_sd);
          reflexivity.
      - cbn [py_isinstance cls_eqb cls_code Nat.eqb].
        destruct r as [[|] [|]];
          repeat (cbn [fst snd py_getitem str_assoc dbind py_truth fbind
                       py_append py_setitem str_set String.eqb Ascii.eqb Bool.eqb loop_end pushh andb emb_opdict];
                  fold (emb_opdict s d sd);
                  rewrite ?od_s, ?od_d, ?od_sd);
          reflexivity. }
    pose proof (hidden_loop body Hb hs hr (by_role_g xs roles is_src, by_role_g xs roles is_dst, by_role_g xs roles is_srcdst) Hh) as HL.
    cbn [fst snd] in HL. rewrite HL. cbn [dbind fbind fst snd]. reflexivity.
  Qed.

  (* hidden operands go where THEIR roles say: read and written -> src_dst, read -> source, everything else -> destination *)
  Theorem C03gen_hidden_operand_roles :
    forall (hs : list pv) (hr : list (bool * bool)) i h r,
      nth_error hs i = Some h -> nth_error hr i = Some r ->
      In h (by_role_g hs hr (if andb (fst r) (snd r) then is_srcdst else if fst r then is_src else hid_dst)).
  Proof.
    intros hs. induction hs as [|y hs IH]; intros hr i h r Hh Hr; [destruct i; discriminate|].
    destruct hr as [|r0 hr]; [destruct i; discriminate|]. rewrite by_role_g_step. destruct i as [|i]; cbn in Hh, Hr.
    - inversion Hh; inversion Hr; subst. destruct r as [[|] [|]]; left; reflexivity.
    - apply in_or_app. right. eapply IH; eassumption.
  Qed.

  (* ---- (2) the default-role helpers ---- *)
  Definition isa_str (x86 : bool) : pv := VStr (if x86 then "x86" else "aarch64").

  Lemma slice_0_m1 (xs : list pv) : py_slice (VList xs) (VInt 0) (VInt (-1)) = DOk (VList (removelast xs)).
  Proof.
    rewrite <- slice_to_m1. cbn [py_slice norm_bound dbind]. change (0 <? 0)%Z with false. cbv iota.
    replace (Z.to_nat (Z.min 0 (Z.of_nat (List.length xs)))) with 0%nat by lia. reflexivity.
  Qed.
  Lemma slice_m1_end (xs : list pv) : py_slice (VList xs) (VInt (-1)) VNone = DOk (VList (skipn (List.length xs - 1) xs)).
  Proof.
    cbn [py_slice norm_bound dbind]. change (-1 <? 0)%Z with true. cbv iota. unfold slice_list.
    replace (Z.to_nat (Z.max 0 (Z.of_nat (List.length xs) + -1))) with (List.length xs - 1)%nat by lia.
    rewrite <- (skipn_length (List.length xs - 1) xs). rewrite firstn_all. reflexivity.
  Qed.
  Lemma slice_to_1 (xs : list pv) : py_slice (VList xs) VNone (VInt 1) = DOk (VList (firstn 1 xs)).
  Proof.
    cbn [py_slice norm_bound dbind]. change (1 <? 0)%Z with false. cbv iota. unfold slice_list. cbn [skipn]. rewrite Nat.sub_0_r.
    destruct xs as [|x xs]; [reflexivity|]. replace (Z.to_nat (Z.min 1 (Z.of_nat (List.length (x :: xs))))) with 1%nat by (cbn [List.length]; lia).
    reflexivity.
  Qed.
  Lemma len_eq_1 (xs : list pv) : py_eq (VInt (Z.of_nat (List.length xs))) (VInt 1 : pv) = DOk (match xs with [_] => true | _ => false end).
  Proof.
    cbn [py_eq as_int]. f_equal. destruct xs as [|a [|b l]]; [reflexivity..|]. apply Z.eqb_neq. cbn [List.length]. lia.
  Qed.

  (* an object with the attribute `operands` (first occurrence) *)
  Definition has_operands (iform : pv) (xs : list pv) : Prop := py_getattr iform A_operands = DOk (VList xs).

  Theorem C03gen_default_sources_is_model : forall (x86 : bool) (iform : pv) (xs : list pv),
    has_operands iform xs ->
    g_get_regular_source_operands (isa_str x86) iform = DOk (VList (default_src_g x86 xs)).
  Proof.
    intros x86 iform xs H. unfold g_get_regular_source_operands, has_operands in *. rewrite !H. cbn [dbind py_len]. rewrite len_eq_1. cbn [dbind].
    unfold default_src_g. destruct xs as [|a [|b l]]; cbn [fbind dbind py_getitem as_int norm_index List.length Z.leb Z.ltb nth_error andb Z.of_nat Z.compare Pos.compare Z.to_nat];
      try reflexivity.
    all: destruct x86; cbn [isa_str py_eq String.eqb Ascii.eqb Bool.eqb dbind]; rewrite ?slice_0_m1, ?slice_from1; cbn [dbind py_iter]; rewrite py_comp_id; reflexivity.
  Qed.

  Theorem C03gen_default_destinations_is_model : forall (x86 : bool) (iform : pv) (xs : list pv),
    has_operands iform xs ->
    g_get_regular_destination_operands (isa_str x86) iform = DOk (VList (default_dst_g x86 xs)).
  Proof.
    intros x86 iform xs H. unfold g_get_regular_destination_operands, has_operands in *. rewrite !H. cbn [dbind py_len]. rewrite len_eq_1. cbn [dbind].
    unfold default_dst_g. destruct xs as [|a [|b l]]; cbn [fbind dbind]; try reflexivity.
    all: destruct x86; cbn [isa_str py_eq String.eqb Ascii.eqb Bool.eqb dbind fbind]; rewrite ?slice_m1_end, ?slice_to_1; reflexivity.
  Qed.

  (* Props/C03.v C03_default_roles_x86 for the regenerated helpers: with at least two operands the last one is the only destination,
     all the others are sources (x86); AArch64: the first one / all the others *)
  Theorem C03gen_default_roles_x86 : forall (iform : pv) (xs : list pv) (d : pv),
    has_operands iform xs -> (2 <= List.length xs)%nat ->
    g_get_regular_source_operands (isa_str true) iform = DOk (VList (removelast xs)) /\
    g_get_regular_destination_operands (isa_str true) iform = DOk (VList [last xs d]).
  Proof.
    intros iform xs d H L. rewrite (C03gen_default_sources_is_model true iform xs H), (C03gen_default_destinations_is_model true iform xs H).
    unfold default_src_g, default_dst_g. destruct xs as [|a [|b l]]; cbn [List.length] in L; try lia.
    rewrite (skipn_last d) by congruence. split; reflexivity.
  Qed.
  Theorem C03gen_default_roles_aarch64 : forall (iform : pv) (x : pv) (xs : list pv),
    has_operands iform (x :: xs) -> (1 <= List.length xs)%nat ->
    g_get_regular_source_operands (isa_str false) iform = DOk (VList xs) /\
    g_get_regular_destination_operands (isa_str false) iform = DOk (VList [x]).
  Proof.
    intros iform x xs H L. rewrite (C03gen_default_sources_is_model false iform _ H), (C03gen_default_destinations_is_model false iform _ H).
    unfold default_src_g, default_dst_g. destruct xs as [|b l]; cbn [List.length] in L; try lia. split; reflexivity.
  Qed.
  Theorem C03gen_default_roles_single : forall (x86 : bool) (iform : pv) (x : pv),
    has_operands iform [x] ->
    g_get_regular_source_operands (isa_str x86) iform = DOk (VList [x]) /\
    g_get_regular_destination_operands (isa_str x86) iform = DOk (VList []).
  Proof.
    intros x86 iform x H. rewrite (C03gen_default_sources_is_model x86 iform _ H), (C03gen_default_destinations_is_model x86 iform _ H).
    split; reflexivity.
  Qed.
End Eq.
Print Assumptions C03gen_apply_found_is_model.
Print Assumptions C03gen_hidden_operand_roles.
Print Assumptions C03gen_default_sources_is_model.
Print Assumptions C03gen_default_destinations_is_model.
Print Assumptions C03gen_default_roles_x86.
Print Assumptions C03gen_default_roles_aarch64.
Print Assumptions C03gen_default_roles_single.

(* non-vacuity: `add %rbx, %rax`-like entry with a hidden flag operand that is written *)
Example C03gen_roles2_nonvacuous :
  let a := emb_popnd (T:=Q) 0 (OReg (mkR "rbx" "" false), 0%nat) in
  let b := emb_popnd (T:=Q) 0 (OReg (mkR "rax" "" false), 1%nat) in
  let f := emb_hidden C_FlagOperand [(A_name, VStr "ZF")] (false, true) in
  g_apply_found_ISA_data QNum (emb_entry [(true, false); (true, true)] [f] false) (VList [a; b]) = DOk (emb_opdict [a] [f] [b]).
Proof. vm_compute. reflexivity. Qed.
