(* Property C11 -- translator tie (T) for the marker search and the section reduction.

   Gen/MarkerGen.v is REGENERATED on every run by tools/gen_c11b.py from the current source of
   osaca/semantics/marker_utils.py (match_bytes, find_marked_section, find_marked_kernel_x86ATT / _AArch64,
   reduce_to_section, COMMENT_MARKER); Gen/InspectGen.v (the selection statement `if args.lines:` of osaca.py:inspect)
   is treated in PropsGen/C11genLines.v.
   This file, compiled by the check on every run, proves the regenerated definitions EQUAL to the hand model
   Model/Select.v (the variant whose match_bytes stops once the nop bytes are read, i.e. the tree's code) on every
   input of the model's line type, error outcomes included, and restates the property theorems of Props/C11.v and
   PropsGen/C11.v for the regenerated code.  Since the model has no EFuel / TypeError / AttributeError / KeyError
   outcome, the equalities also show that the `while` loop's fuel always suffices and that the `except TypeError`
   handler, the Optional dereferences and the dict look-ups of the translated code can never fire. *)
From Coq Require Import String Ascii List Bool Arith ZArith Lia.
From OV Require Model.PyString.
From OV Require Import Model.Select Proofs.Select Model.PyMarker Proofs.PyMarker Gen.MarkerGen.
From OV Require Props.C11.
Import ListNotations.
Local Open Scope list_scope.

(* ================================================================== match_bytes *)
Definition lift_mb (r : result (option nat)) : res (bool * Z) :=
  match r with
  | Select.Ok (Some n) => Ok (true, Z.of_nat n)
  | Select.Ok None => Ok (false, (-1)%Z)
  | Select.Err e => Err (inj_err e)
  end.

Lemma g_match_bytes_is_model lines i bl :
  g_match_bytes lines (Z.of_nat i) bl = lift_mb (match_bytes false (skipn i lines) bl).
Proof.
  unfold g_match_bytes.
  match goal with |- context [py_while _ _ ?c ?b] => set (cond := c); set (body := b) end.
  assert (L : forall rest k c acc fuel, skipn k lines = rest -> (length rest < fuel)%nat ->
    py_while fuel (Z.of_nat c, acc, Z.of_nat k) cond body =
    match collect false (length bl) rest acc c with
    | Select.Ok (acc', c') => Ok (Z.of_nat c', acc', (Z.of_nat k + Z.of_nat c' - Z.of_nat c)%Z)
    | Select.Err e => Err (inj_err e)
    end).
  { induction rest as [|l r IH]; intros k c acc fuel Hs Hf; (destruct fuel as [|fuel]; [simpl in Hf; lia|]).
    - apply skipn_nil_inv in Hs. simpl. unfold cond at 1.
      replace (Z.of_nat k <? py_len lines)%Z with false by (symmetry; apply Z.ltb_ge; unfold py_len; lia).
      simpl. repeat f_equal. lia.
    - apply skipn_cons_inv in Hs. destruct Hs as (Hn & Hr & Hlt).
      cbn [py_while]. unfold cond at 1. cbv beta iota.
      replace (Z.of_nat k <? py_len lines)%Z with true by (symmetry; apply Z.ltb_lt; unfold py_len; lia).
      unfold py_len at 1 2. rewrite ltb_of_nat. cbn [collect]. unfold is_byte.
      destruct (length acc <? length bl)%nat eqn:Hlen.
      2:{ cbn. destruct (l_directive l) as [d|]; [destruct (String.eqb (d_name d) "byte")|]; cbn; repeat f_equal; lia. }
      rewrite py_getitem_nat, Hn. cbn [bind].
      destruct (l_directive l) as [d|] eqn:Hd; cbn [is_some negb bind py_some].
      2:{ cbn. repeat f_equal. lia. }
      cbn [bind]. rewrite ?Hd. cbn [py_some bind].
      destruct (String.eqb (d_name d) "byte") eqn:Hb; cbn [bind orb].
      2:{ repeat f_equal. lia. }
      unfold body at 1. cbv beta iota. rewrite py_getitem_nat, Hn. cbn [bind]. rewrite Hd. cbn [py_some bind].
      rewrite (py_mapM_ints _ (d_params d)) by (intros x; apply bind_ret).
      destruct (ints (d_params d)) as [zs|e]; cbn [inj bind Select.bind]; [|reflexivity].
      replace (Z.of_nat c + 1)%Z with (Z.of_nat (S c)) by lia.
      replace (Z.of_nat k + 1)%Z with (Z.of_nat (S k)) by lia.
      rewrite (IH (S k) (S c) (acc ++ zs) fuel Hr) by (simpl in Hf; lia).
      destruct (collect false (length bl) r (acc ++ zs) (S c)) as [[a' c']|e]; [|reflexivity].
      replace (Z.of_nat (S k) + Z.of_nat c' - Z.of_nat (S c))%Z with (Z.of_nat k + Z.of_nat c' - Z.of_nat c)%Z by lia. reflexivity. }
  replace (S (Z.to_nat (py_len lines - Z.of_nat i))) with (S (length lines - i)) by (unfold py_len; lia).
  change 0%Z with (Z.of_nat 0) at 1.
  rewrite (L (skipn i lines) i 0%nat [] _ eq_refl) by (rewrite skipn_length; lia).
  unfold match_bytes.
  destruct (collect false (length bl) (skipn i lines) [] 0) as [[a' c']|e]; cbn [bind Select.bind lift_mb fst snd]; [|reflexivity].
  unfold py_len. rewrite py_slice_first. unfold list_Z_eq.
  destruct (list_Z_eqb (firstn (length bl) a') bl); reflexivity.
Qed.

Definition lift_se (r : result (option nat * option nat)) : res (Z * Z) :=
  match r with Select.Ok (s, e) => Ok (optZ s, optZ e) | Select.Err e => Err (inj_err e) end.
Definition comments_dict : option pydict := Some [("start"%string, c_start); ("end"%string, c_end)].
Definition upd_s (r : step_result) (n : nat) (s : option nat) := match r with SStart k => Some (n + 1 + k) | _ => s end.
Definition upd_e (r : step_result) (n : nat) (e : option nat) := match r with SEnd => Some n | _ => e end.

Lemma skipn_app_cons {A} (pre : list A) cur rest : skipn (S (length pre)) (pre ++ cur :: rest) = rest.
Proof. induction pre; simpl; auto. Qed.
Lemma nth_error_app_cons {A} (pre : list A) cur rest : nth_error (pre ++ cur :: rest) (S (length pre)) = hd_error rest.
Proof. rewrite nth_error_skipn_hd, skipn_app_cons. reflexivity. Qed.

Lemma if_ok_bool {A} (b : bool) (x : A) : (if b then Ok (true, x) else Ok (false, x)) = Ok (b, x).
Proof. destruct b; reflexivity. Qed.
Local Arguments optZ : simpl never.
Local Arguments String.eqb : simpl never.
Local Arguments Z.eqb : simpl never.
Local Arguments Z.ltb : simpl never.
Local Arguments Z.add : simpl never.
Local Arguments Z.of_nat : simpl never.
Local Arguments py_getitem : simpl never.
Local Arguments g_match_bytes : simpl never.
Local Arguments match_bytes : simpl never.
Lemma py_getitem_0 {A} (l : list A) : py_getitem l 0 = match l with x :: _ => Ok x | [] => Err EIndex end.
Proof. destruct l; reflexivity. Qed.
Lemma py_getitem_1 {A} (l : list A) : py_getitem l 1 = match l with _ :: x :: _ => Ok x | _ => Err EIndex end.
Proof. destruct l as [|? [|? ?]]; reflexivity. Qed.
Lemma dict_start : py_optdict_get comments_dict "start" = Ok c_start.
Proof. reflexivity. Qed.
Lemma dict_end : py_optdict_get comments_dict "end" = Ok c_end.
Proof. reflexivity. Qed.

Ltac sc := cbn [bind is_some negb andb orb py_try err_eqb str_eq_opt fst snd py_some op_is_imm op_is_reg
  py_normalize_imd py_get_full_reg_name imd_eq_int parser_of lift_mb upd_s upd_e inj_err l_mnemonic l_comment l_operands l_directive].

Lemma g_find_marked_section_is_model i lines :
  g_find_marked_section lines (parser_of i) (mov_instr i) (mov_reg i) [val_start; val_end] (nop_bytes i) (reverse i) comments_dict
  = lift_se (find_marked_section false i lines).
Proof.
  unfold g_find_marked_section.
  match goal with |- context [py_for_brk _ _ ?b] => set (body := b) end.
  assert (St : forall pre cur rest s e, lines = pre ++ cur :: rest ->
    body (Z.of_nat (length pre), cur) (optZ s, optZ e) =
    match step false i cur rest with
    | SCrash err => Err (inj_err err)
    | r => Ok (both (upd_s r (length pre) s) (upd_e r (length pre) e),
               (optZ (upd_s r (length pre) s), optZ (upd_e r (length pre) e)))
    end).
  { intros pre cur rest s e Hl. set (n := length pre).
    assert (Hmb : g_match_bytes lines (Z.of_nat n + 1) (nop_bytes i) = lift_mb (match_bytes false rest (nop_bytes i))).
    { replace (Z.of_nat n + 1)%Z with (Z.of_nat (S n)) by lia. rewrite g_match_bytes_is_model.
      subst lines n. rewrite skipn_app_cons. reflexivity. }
    assert (Hnx : py_getitem lines (Z.of_nat n + 1) = match rest with x :: _ => Ok x | [] => Err EIndex end).
    { replace (Z.of_nat n + 1)%Z with (Z.of_nat (S n)) by lia. rewrite py_getitem_nat. subst lines n.
      rewrite nth_error_app_cons. destruct rest; reflexivity. }
    assert (Hlen : (Z.of_nat n + 1 <? py_len lines)%Z = match rest with [] => false | _ => true end).
    { subst lines n. unfold py_len. rewrite app_length. simpl.
      destruct rest; [apply Z.ltb_ge | apply Z.ltb_lt]; simpl; lia. }
    assert (Hbrk : forall s' e', andb (negb (Z.eqb (optZ s') (-1))) (negb (Z.eqb (optZ e') (-1))) = both s' e').
    { intros [?|] [?|]; rewrite !optZ_m1; reflexivity. }
    unfold body. cbv beta iota. clearbody n. clear Hl body.
    destruct cur as [m ops d c num]. unfold step. cbn [l_mnemonic l_comment l_operands l_directive].
    assert (Fs : forall k (e' : option nat) , (if andb (negb (Z.eqb (Z.of_nat n + 1 + Z.of_nat k) (-1))) (negb (Z.eqb (optZ e') (-1)))
                   then Ok (true, ((Z.of_nat n + 1 + Z.of_nat k)%Z, optZ e')) else Ok (false, ((Z.of_nat n + 1 + Z.of_nat k)%Z, optZ e')))
                  = Ok (both (Some (n + 1 + k)) e', (optZ (Some (n + 1 + k)), optZ e'))).
    { intros k e'. replace (Z.of_nat n + 1 + Z.of_nat k)%Z with (optZ (Some (n + 1 + k))) by (unfold optZ; lia).
      rewrite Hbrk, if_ok_bool. reflexivity. }
    assert (Fs0 : forall (e' : option nat) , (if andb (negb (Z.eqb (Z.of_nat n + 1) (-1))) (negb (Z.eqb (optZ e') (-1)))
                   then Ok (true, ((Z.of_nat n + 1)%Z, optZ e')) else Ok (false, ((Z.of_nat n + 1)%Z, optZ e')))
                  = Ok (both (Some (n + 1 + 0)) e', (optZ (Some (n + 1 + 0)), optZ e'))).
    { intros e'. replace (Z.of_nat n + 1)%Z with (optZ (Some (n + 1 + 0))) by (unfold optZ; lia).
      rewrite Hbrk, if_ok_bool. reflexivity. }
    assert (Fe : forall (s' : option nat) , (if andb (negb (Z.eqb (optZ s') (-1))) (negb (Z.eqb (Z.of_nat n) (-1)))
                   then Ok (true, (optZ s', Z.of_nat n)) else Ok (false, (optZ s', Z.of_nat n)))
                  = Ok (both s' (Some n), (optZ s', optZ (Some n)))).
    { intros s'. change (Z.of_nat n) with (optZ (Some n)). rewrite Hbrk, if_ok_bool. reflexivity. }
    assert (Fn : forall (s' e' : option nat) , (if andb (negb (Z.eqb (optZ s') (-1))) (negb (Z.eqb (optZ e') (-1)))
                   then Ok (true, (optZ s', optZ e')) else Ok (false, (optZ s', optZ e')))
                  = Ok (both s' e', (optZ s', optZ e'))).
    { intros s' e'. rewrite Hbrk, if_ok_bool. reflexivity. }
    change (is_some comments_dict) with true.
    destruct m as [m|].
    2:{ (* no mnemonic: comment markers *)
      destruct c as [c|]; sc.
      - rewrite dict_start. sc.
        destruct (String.eqb c_start c); sc; [apply Fs0|].
        rewrite dict_end. sc.
        destruct (String.eqb c_end c); sc; [apply Fe | apply Fn].
      - apply Fn. }
    change (opt_in_strs (Some m) (mov_instr i)) with (in_strs m (mov_instr i)).
    sc. rewrite Hlen, Hnx, Hmb.
    destruct (in_strs m (mov_instr i)); sc.
    2:{ destruct rest; apply Fn. }
    destruct rest as [|nxt rest']; sc; [apply Fn|].
    destruct (l_directive nxt); sc; [|apply Fn].
    rewrite !(py_getitem_0 [val_start; val_end]), !(py_getitem_1 [val_start; val_end]).
    unfold is_marker_ops.
    destruct (match_bytes false (nxt :: rest') (nop_bytes i)) as [[k|]|err];
    destruct i; cbn [reverse negb mov_reg]; rewrite ?py_getitem_0, ?py_getitem_1;
    (destruct ops as [|o0 [|o1 ops']]; cbn [nth_error bind]; try reflexivity);
    destruct o0, o1; sc; try apply Fn;
    repeat match goal with
    | |- context [Z.eqb ?z val_start] => destruct (Z.eqb z val_start); sc
    | |- context [Z.eqb ?z val_end] => destruct (Z.eqb z val_end); sc
    | |- context [String.eqb ?r ?x] => destruct (String.eqb r x); sc
    end; try apply Fn; try apply Fe; try apply Fs; try reflexivity; try (destruct err; reflexivity). }
  assert (Lp : forall suffix pre s e, lines = pre ++ suffix ->
    py_for_brk (enum_from (Z.of_nat (length pre)) suffix) (optZ s, optZ e) body =
    match scan false i (length pre) suffix s e with
    | Select.Ok (s', e') => Ok (optZ s', optZ e')
    | Select.Err err => Err (inj_err err)
    end).
  { induction suffix as [|cur rest IH]; intros pre s e Hl; cbn [enum_from py_for_brk scan]; [reflexivity|].
    rewrite (St pre cur rest s e Hl).
    assert (Hn : (Z.of_nat (length pre) + 1)%Z = Z.of_nat (length (pre ++ [cur]))) by (rewrite app_length; simpl; lia).
    assert (Hn' : S (length pre) = length (pre ++ [cur])) by (rewrite app_length; simpl; lia).
    assert (Hl' : lines = (pre ++ [cur]) ++ rest) by (rewrite <- app_assoc; exact Hl).
    rewrite Hn, Hn'.
    destruct (step false i cur rest); cbn [bind fst snd upd_s upd_e]; try reflexivity;
    match goal with |- (if both ?a ?b then _ else _) = _ => destruct (both a b); [reflexivity | apply (IH (pre ++ [cur]) a b Hl')] end. }
  unfold py_enumerate, find_marked_section.
  change (-(1))%Z with (optZ None). change 0%Z with (Z.of_nat (length (@nil line))).
  rewrite (Lp lines [] None None eq_refl). cbn [length].
  destruct (scan false i 0 lines None None) as [[s' e']|err]; reflexivity.
Qed.

(* ================================================================== the two wrappers: which arguments are passed *)
Lemma g_find_marked_kernel_x86ATT_is_model lines :
  g_find_marked_kernel_x86ATT lines = lift_se (find_marked_section false X86 lines).
Proof. unfold g_find_marked_kernel_x86ATT. cbv zeta. rewrite bind_ret. exact (g_find_marked_section_is_model X86 lines). Qed.

Lemma g_find_marked_kernel_AArch64_is_model lines :
  g_find_marked_kernel_AArch64 lines = lift_se (find_marked_section false A64 lines).
Proof. unfold g_find_marked_kernel_AArch64. cbv zeta. rewrite bind_ret. exact (g_find_marked_section_is_model A64 lines). Qed.

(* ================================================================== reduce_to_section *)
Definition isa_of_name (s : string) : option isa :=
  if String.eqb s "x86" then Some X86 else if String.eqb s "aarch64" then Some A64 else None.
Definition isa_name (i : isa) : string := match i with X86 => "x86" | A64 => "aarch64" end.

Lemma slice_of_marks {A} (kernel : list A) (s e : option nat) :
  py_slice kernel (Some (if Z.eqb (optZ s) (-1) then 0%Z else optZ s))
                  (Some (if Z.eqb (optZ e) (-1) then py_len kernel else optZ e))
  = slice kernel (match s with Some s => s | None => 0 end) (match e with Some e => e | None => length kernel end).
Proof.
  rewrite !optZ_m1. unfold py_len.
  destruct s as [s|], e as [e|]; cbn [is_some negb optZ]; try change 0%Z with (Z.of_nat 0); apply py_slice_nat.
Qed.

Lemma reduce_after_marks (kernel : list line) (r : result (option nat * option nat)) :
  ('(v_start, v_end) <- ('(v_start, v_end) <- (t <- lift_se r ;; let '(a, b) := t in Ok (a, b)) ;; Ok (v_start, v_end)) ;;
   v_start <- (if Z.eqb v_start (-1) then Ok 0%Z else Ok v_start) ;;
   v_end <- (if Z.eqb v_end (-1) then Ok (py_len kernel) else Ok v_end) ;;
   Ok (py_slice kernel (Some v_start) (Some v_end)))
  = inj (Select.bind r (fun se => Select.Ok (slice kernel (match fst se with Some s => s | None => 0 end)
                                                         (match snd se with Some e => e | None => length kernel end)))).
Proof.
  destruct r as [[s e]|err]; cbn [lift_se bind inj Select.bind fst snd]; [|reflexivity].
  rewrite <- slice_of_marks. destruct (Z.eqb (optZ s) (-1)), (Z.eqb (optZ e) (-1)); reflexivity.
Qed.

Lemma g_reduce_to_section_is_model kernel name :
  g_reduce_to_section kernel name =
  match isa_of_name (PyString.py_lower name) with
  | Some i => inj (reduce_to_section false i kernel)
  | None => Err EValue
  end.
Proof.
  unfold g_reduce_to_section, isa_of_name. cbv zeta.
  destruct (String.eqb (PyString.py_lower name) "x86").
  - rewrite g_find_marked_kernel_x86ATT_is_model. change (- (1))%Z with (-1)%Z.
    etransitivity; [|apply (reduce_after_marks kernel (find_marked_section false X86 kernel))].
    destruct (find_marked_section false X86 kernel) as [[s e]|err]; reflexivity.
  - destruct (String.eqb (PyString.py_lower name) "aarch64"); [|reflexivity].
    rewrite g_find_marked_kernel_AArch64_is_model. change (- (1))%Z with (-1)%Z.
    etransitivity; [|apply (reduce_after_marks kernel (find_marked_section false A64 kernel))].
    destruct (find_marked_section false A64 kernel) as [[s e]|err]; reflexivity.
Qed.

Lemma isa_of_isa_name i : isa_of_name (isa_name i) = Some i.
Proof. destruct i; reflexivity. Qed.

Lemma g_reduce_by_isa i kernel name : PyString.py_lower name = isa_name i ->
  g_reduce_to_section kernel name = inj (reduce_fixed i kernel).
Proof. intros H. rewrite g_reduce_to_section_is_model, H, isa_of_isa_name. reflexivity. Qed.

(* ================================================================== property theorems for the regenerated code *)
(* the translated code equals the model, on every file and every ISA string *)
Theorem C11gen_reduce_to_section_is_model : forall kernel name,
  g_reduce_to_section kernel name =
  match isa_of_name (PyString.py_lower name) with
  | Some i => inj (reduce_fixed i kernel)
  | None => Err EValue
  end.
Proof. exact g_reduce_to_section_is_model. Qed.
Print Assumptions C11gen_reduce_to_section_is_model.

Theorem C11gen_match_bytes_is_model : forall lines i byte_list,
  g_match_bytes lines (Z.of_nat i) byte_list = lift_mb (match_bytes false (skipn i lines) byte_list).
Proof. exact g_match_bytes_is_model. Qed.
Print Assumptions C11gen_match_bytes_is_model.

(* find_marked_section with the arguments the model fixes per ISA; -1 stands for "not found" *)
Theorem C11gen_find_marked_section_is_model : forall i lines,
  g_find_marked_section lines (parser_of i) (mov_instr i) (mov_reg i) [val_start; val_end] (nop_bytes i) (reverse i)
                        (Some [("start"%string, c_start); ("end"%string, c_end)])
  = lift_se (find_marked_section false i lines).
Proof. exact g_find_marked_section_is_model. Qed.
Print Assumptions C11gen_find_marked_section_is_model.

(* the wrappers pass exactly these arguments: parser class, mnemonics, register, values, nop bytes, operand order,
   comment markers *)
Theorem C11gen_wrappers_pass_model_arguments : forall lines,
  g_find_marked_kernel_x86ATT lines = lift_se (find_marked_section false X86 lines) /\
  g_find_marked_kernel_AArch64 lines = lift_se (find_marked_section false A64 lines) /\
  g_find_marked_kernel_x86ATT lines =
    (t <- g_find_marked_section lines PX86 ["mov"; "movl"]%string "ebx" [111; 222]%Z [100; 103; 144]%Z false
            (Some [("start", "OSACA-BEGIN"); ("end", "OSACA-END")]%string) ;; Ok t) /\
  g_find_marked_kernel_AArch64 lines =
    (t <- g_find_marked_section lines PA64 ["mov"]%string "x1" [111; 222]%Z [213; 3; 32; 31]%Z true
            (Some [("start", "OSACA-BEGIN"); ("end", "OSACA-END")]%string) ;; Ok t).
Proof.
  intros. split; [apply g_find_marked_kernel_x86ATT_is_model|]. split; [apply g_find_marked_kernel_AArch64_is_model|].
  split; reflexivity.
Qed.
Print Assumptions C11gen_wrappers_pass_model_arguments.

(* the only exceptions that leave the translated reduce_to_section are ValueError (unknown ISA, .byte operand
   that is not an int literal) and IndexError (mov with fewer than two operands in front of a directive):
   the fuel of the while loop suffices, `except TypeError` never fires, no AttributeError / KeyError *)
Theorem C11gen_only_value_and_index_errors : forall kernel name e,
  g_reduce_to_section kernel name = Err e -> e = EValue \/ e = EIndex.
Proof.
  intros kernel name e. rewrite g_reduce_to_section_is_model.
  destruct (isa_of_name (PyString.py_lower name)) as [i|].
  - destruct (reduce_to_section false i kernel) as [k|[]]; simpl; intros H; inversion H; auto.
  - intros H; inversion H; auto.
Qed.
Print Assumptions C11gen_only_value_and_index_errors.

Theorem C11gen_unknown_isa_raises : forall kernel name,
  isa_of_name (PyString.py_lower name) = None -> g_reduce_to_section kernel name = Err EValue.
Proof. intros kernel name H. rewrite g_reduce_to_section_is_model, H. reflexivity. Qed.
Print Assumptions C11gen_unknown_isa_raises.

(* marked kernels: every prologue / body / epilogue, start and end marker each in any style, both ISAs,
   the ISA string in any letter case *)
Theorem C11gen_marked_exact : forall i name pro sm body em epi,
  PyString.py_lower name = isa_name i ->
  no_marker false i pro -> no_marker false i body ->
  marker_min i val_start c_start sm -> marker_min i val_end c_end em ->
  g_reduce_to_section (pro ++ sm ++ body ++ em ++ epi) name = Ok body.
Proof.
  intros i name pro sm body em epi Hn Hp Hb Hs He. rewrite (g_reduce_by_isa i _ name Hn).
  rewrite (marked_exact_fixed_lemma i pro sm body em epi Hp Hb Hs He). reflexivity.
Qed.
Print Assumptions C11gen_marked_exact.

Theorem C11gen_unmarked_whole : forall i name f,
  PyString.py_lower name = isa_name i -> no_marker false i f -> g_reduce_to_section f name = Ok f.
Proof.
  intros i name f Hn Hf. rewrite (g_reduce_by_isa i _ name Hn). unfold reduce_fixed.
  rewrite (unmarked_whole_lemma false i f Hf). reflexivity.
Qed.
Print Assumptions C11gen_unmarked_whole.

Theorem C11gen_start_marker_only : forall i name pro sm rest,
  PyString.py_lower name = isa_name i ->
  no_marker false i pro -> no_marker false i rest -> marker_min i val_start c_start sm ->
  g_reduce_to_section (pro ++ sm ++ rest) name = Ok rest.
Proof.
  intros i name pro sm rest Hn Hp Hr Hs. rewrite (g_reduce_by_isa i _ name Hn).
  rewrite (Props.C11.start_marker_only i pro sm rest Hp Hr Hs). reflexivity.
Qed.
Print Assumptions C11gen_start_marker_only.

(* noise lines (comment / label / directive other than .byte) inserted anywhere in the body *)
Theorem C11gen_marked_noise_transparent : forall i name pro sm body body' em epi,
  PyString.py_lower name = isa_name i ->
  no_marker false i pro -> no_marker false i body -> forallb (ops_ok i) body = true ->
  marker_min i val_start c_start sm -> marker_min i val_end c_end em ->
  noisy body body' ->
  g_reduce_to_section (pro ++ sm ++ body' ++ em ++ epi) name = Ok body' /\
  filter has_mnemonic body' = filter has_mnemonic body.
Proof.
  intros i name pro sm body body' em epi Hn Hp Hb Ho Hs He Hy. rewrite (g_reduce_by_isa i _ name Hn).
  destruct (Props.C11.marked_noise_transparent_fixed i pro sm body body' em epi Hp Hb Ho Hs He Hy) as [H1 H2].
  rewrite H1. split; [reflexivity | exact H2].
Qed.
Print Assumptions C11gen_marked_noise_transparent.

(* the translated selection never looks at line numbers *)
Definition res_map {A B} (f : A -> B) (r : res A) : res B := match r with Ok a => Ok (f a) | Err e => Err e end.
Theorem C11gen_selection_ignores_line_numbers : forall name f f',
  map erase f = map erase f' ->
  res_map (map erase) (g_reduce_to_section f name) = res_map (map erase) (g_reduce_to_section f' name).
Proof.
  intros name f f' H. rewrite !g_reduce_to_section_is_model.
  destruct (isa_of_name (PyString.py_lower name)) as [i|]; [|reflexivity].
  pose proof (renumber_invariant_lemma false i f f' H) as R.
  destruct (reduce_to_section false i f), (reduce_to_section false i f'); simpl in *; inversion R; reflexivity.
Qed.
Print Assumptions C11gen_selection_ignores_line_numbers.

(* ================================================================== non-vacuity: the regenerated code evaluated *)
Import Props.C11.
Example C11gen_nonvacuous :
  g_reduce_to_section (decoys_x86 ++ x_start1 ++ decoys_x86 ++ [cmt c_end 70] ++ x_start3) "x86" = Ok decoys_x86 /\
  g_reduce_to_section (decoys_x86 ++ x_start3 ++ decoys_x86 ++ x_end3 60 ++ x_start3) "X86" = Ok decoys_x86 /\
  g_reduce_to_section (decoys_a64 ++ a_start ++ decoys_a64 ++ a_end ++ decoys_a64) "AArch64" = Ok decoys_a64 /\
  g_reduce_to_section decoys_x86 "x86" = Ok decoys_x86 /\
  g_reduce_to_section decoys_x86 "mips" = Err EValue /\
  (* a .byte line at the head of the kernel stays in the kernel (the loop stops after the nop bytes) *)
  g_reduce_to_section ([instr "addl" 1] ++ x_start3 ++ [bytes ["15"; "31"; "0"] 7; instr "addl" 8] ++ x_end3 9 ++ [bytes ["0144"] 13]) "x86"
    = Ok [bytes ["15"; "31"; "0"] 7; instr "addl" 8] /\
  (* exceptions that do leave the function *)
  g_reduce_to_section [x_mov 111 "ebx" 1; bytes ["0144"] 2] "x86" = Err EValue /\
  g_reduce_to_section [ln (Some "mov") [OReg "eax"] None None 1; dirv "p2align" 2] "x86" = Err EIndex /\
  g_match_bytes x_start3 1 [100; 103; 144]%Z = Ok (true, 3%Z) /\
  g_match_bytes x_start3 1 [100; 103; 145]%Z = Ok (false, (-1)%Z) /\
  g_match_bytes x_start3 (-3) [100; 103; 144]%Z = Ok (true, 3%Z) /\      (* Python's negative index *)
  g_match_bytes x_start3 (-5) [100; 103; 144]%Z = Err EIndex /\
  g_match_bytes x_start3 9 []%Z = Ok (true, 0%Z) /\
  g_find_marked_kernel_x86ATT (decoys_x86 ++ x_start3 ++ decoys_x86 ++ x_end3 60) = Ok (29, 54)%Z /\
  g_find_marked_kernel_x86ATT decoys_x86 = Ok (-1, -1)%Z /\
  (* comments=None: the comment markers are ignored; a missing key raises KeyError; TypeError is swallowed *)
  g_find_marked_section [cmt c_start 1; instr "addl" 2; cmt c_end 3] PX86 ["mov"] "ebx" [111; 222]%Z [100]%Z false None = Ok (-1, -1)%Z /\
  g_find_marked_section [cmt c_start 1; instr "addl" 2; cmt c_end 3] PX86 ["mov"] "ebx" [111; 222]%Z [100]%Z false (Some g_COMMENT_MARKER) = Ok (1, 2)%Z /\
  g_find_marked_section [cmt c_start 1] PX86 ["mov"] "ebx" [111; 222]%Z [100]%Z false (Some [("begin", "x")]) = Err EKey /\
  g_find_marked_section [x_mov 5 "ebx" 1; dirv "text" 2] PX86 ["movl"] "ebx" []%Z [100]%Z false None = Err EIndex.
Proof. repeat split; vm_compute; reflexivity. Qed.
