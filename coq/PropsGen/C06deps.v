(* Property C06 -- store-to-load dependencies through provably equal addresses -- restated for the functions REGENERATED from
   the current source of osaca/semantics/kernel_dg.py (Gen/DepsGen.v; tools/gen_deps.py): KernelDG.is_memload, is_memstore,
   _update_reg_changes and the memory branch of find_depending.  The equalities "regenerated function = hand model on every input
   of the model's types" are proved in PropsGen/C03deps.v (C03gen_*_is_model); here the theorems of Props/C06.v are carried over
   to the regenerated definitions.  Compiled by the check (after PropsGen/C03deps.v), not by make. *)
From Coq Require Import ZArith List Bool String Lia.
From OV Require Import Model.Num Model.Pressure Model.Deps Model.RegRec Model.DepsDyn Proofs.DepsDyn Proofs.MemDep Gen.DepsGen PropsGen.C03deps.
Import ListNotations. Open Scope string_scope. Open Scope list_scope.

(* executing the register changes get_reg_changes reports for one line, one after the other (None: anything may happen) *)
Inductive run_changes : regfile -> list (string * change) -> regfile -> Prop :=
| run_nil rho : run_changes rho [] rho
| run_cons rho rho1 rho2 reg c cs : apply_change rho reg c rho1 -> run_changes rho1 cs rho2 -> run_changes rho ((reg, c) :: cs) rho2.

Lemma update_changes_describes cs : forall s rho0 rho rho',
  describes s rho0 rho -> run_changes rho cs rho' -> describes (update_changes s cs) rho0 rho'.
Proof.
  induction cs as [|[reg c] cs IH]; intros s rho0 rho rho' D R; inversion R; subst.
  - exact D.
  - unfold update_changes. cbn [fold_left fst snd]. eapply IH; [|eassumption].
    eapply update_one_describes; eassumption.
Qed.

(* SOUNDNESS: when the regenerated is_memload links instruction l to the store operand `mem` under tracked changes s that
   describe the current register file relative to the one at the store, some memory source operand of l has the store's address *)
Theorem C06gen_memload_sound : forall (T : Type) mem (l : line (T:=T)) s rho0 rho,
  describes s rho0 rho ->
  g_is_memload (emb_mem mem) (emb_line l) (emb_changes s) = DOk (VBool true) ->
  exists src, In (OMem src) (srcs l) /\ (m_off src <> OSym -> addr_load rho src = addr rho0 mem).
Proof.
  intros T mem l s rho0 rho D H. rewrite C03gen_is_memload_is_model in H. inversion H as [H1]. clear H.
  unfold is_memload in H1. apply existsb_exists in H1. destruct H1 as (o & Hin & Ho).
  destruct o as [r|n|src|]; try discriminate. exists src. split; [exact Hin|]. intros Hs.
  apply (memload_sound mem s src rho0 rho D Ho). destruct (m_off src); try exact I. contradiction.
Qed.
Print Assumptions C06gen_memload_sound.

(* the regenerated is_memload never raises on values of the model's types and answers a bool *)
Theorem C06gen_memload_total : forall (T : Type) mem (l : line (T:=T)) s,
  exists b, g_is_memload (emb_mem mem) (emb_line l) (emb_changes s) = DOk (VBool b).
Proof. intros. eexists. apply C03gen_is_memload_is_model. Qed.
Print Assumptions C06gen_memload_total.

(* the tracking is sound: the regenerated _update_reg_changes keeps the description valid across one instruction *)
Theorem C06gen_tracking_sound : forall (T : Type) arch, py_is_none arch = false ->
  forall (l : line (T:=T)) s (post : bool) rho0 rho rho',
  describes s rho0 rho -> run_changes rho (if post then l_chg_post l else l_chg l) rho' ->
  exists s', g_update_reg_changes arch (emb_line l) (emb_changes s) (VBool post) = DOk (emb_changes s', emb_changes s') /\
             describes s' rho0 rho'.
Proof.
  intros T arch Ha l s post rho0 rho rho' D R. eexists. split.
  - apply (C03gen_update_reg_changes_is_model T arch Ha l s post).
  - eapply update_changes_describes; eassumption.
Qed.
Print Assumptions C06gen_tracking_sound.

(* no dependency when the addressing shapes differ or the store's displacement is symbolic (every memory source of the line) *)
Theorem C06gen_memdep_none_on_shape_mismatch : forall (T : Type) mem (l : line (T:=T)) s,
  (forall src, In (OMem src) (srcs l) ->
     match m_base mem, m_base src with Some _, None | None, Some _ => True | _, _ => False end \/
     match m_index mem, m_index src with Some _, None | None, Some _ => True | _, _ => False end \/
     m_off mem = OSym) ->
  g_is_memload (emb_mem mem) (emb_line l) (emb_changes s) = DOk (VBool false).
Proof.
  intros T mem l s H. rewrite C03gen_is_memload_is_model. do 2 f_equal. unfold is_memload.
  apply not_true_is_false. intros E. apply existsb_exists in E. destruct E as (o & Hin & Ho).
  destruct o as [r|n|src|]; try discriminate. rewrite (memload_none_shape mem s src (H src Hin)) in Ho. discriminate.
Qed.
Print Assumptions C06gen_memdep_none_on_shape_mismatch.

(* COMPLETENESS, simplest case: a load from the same untouched base with the same displacement is linked *)
Theorem C06gen_memdep_complete_simple : forall (T : Type) (l : line (T:=T)) b d k1 k2 pre post,
  In (OMem (mkM (Some b) None 1 (OImm d) false false k2)) (srcs l) ->
  g_is_memload (emb_mem (mkM (Some b) None 1 (OImm d) pre post k1)) (emb_line l) (VDict []) = DOk (VBool true).
Proof.
  intros T l b d k1 k2 pre post Hin. change (VDict []) with (emb_changes []). rewrite C03gen_is_memload_is_model. do 2 f_equal.
  unfold is_memload. apply existsb_exists. eexists. split; [exact Hin|].
  unfold memload_one. cbn [m_off m_base m_index m_scale m_pre]. unfold lookup_change. cbn [rs_get].
  rewrite String.eqb_refl. apply Z.eqb_eq. lia.
Qed.
Print Assumptions C06gen_memdep_complete_simple.

(* a different displacement on the same untouched base is not linked (single memory source) *)
Theorem C06gen_memdep_none_on_displacement : forall (T : Type) (l : line (T:=T)) b d1 d2 k1 k2 pre post,
  d1 <> d2 -> (forall o, In o (srcs l) -> o = OMem (mkM (Some b) None 1 (OImm d2) false false k2) \/ match o with OMem _ => False | _ => True end) ->
  g_is_memload (emb_mem (mkM (Some b) None 1 (OImm d1) pre post k1)) (emb_line l) (VDict []) = DOk (VBool false).
Proof.
  intros T l b d1 d2 k1 k2 pre post Hd Hs. change (VDict []) with (emb_changes []). rewrite C03gen_is_memload_is_model. do 2 f_equal.
  unfold is_memload. apply not_true_is_false. intros E. apply existsb_exists in E. destruct E as (o & Hin & Ho).
  destruct (Hs o Hin) as [-> | Hn].
  - unfold memload_one in Ho. cbn [m_off m_base m_index m_scale m_pre] in Ho. unfold lookup_change in Ho. cbn [rs_get] in Ho.
    rewrite String.eqb_refl in Ho. apply Z.eqb_eq in Ho. lia.
  - destruct o; try discriminate. contradiction.
Qed.
Print Assumptions C06gen_memdep_none_on_displacement.

(* a later store to the same operand ends the search: what follows it does not matter *)
Theorem C06gen_later_store_kills : forall (T : Type) dep pr pf arch, tie_hyps dep pr pf arch ->
  forall fd (A : line (T:=T)) s m (l : line (T:=T)) more rc,
  l_sem A = Some (s, [OMem m], []) -> Forall wf_line (l :: more) ->
  g_is_memstore (emb_mem m) (emb_line l) rc = DOk (VBool true) ->
  g_find_depending pr pf arch (emb_line A) (VList (map emb_line (l :: more))) (VBool fd) =
  g_find_depending pr pf arch (emb_line A) (VList (map emb_line [l])) (VBool fd).
Proof.
  intros T dep pr pf arch H fd A s m l more rc HA Wf Hst.
  rewrite C03gen_is_memstore_is_model in Hst. inversion Hst as [Hst'].
  assert (Wl : Forall wf_line [l]) by (inversion Wf; constructor; [assumption | constructor]).
  destruct (C03gen_find_depending_is_model T dep pr pf arch H fd A (l :: more) Wf) as [E1 _].
  destruct (C03gen_find_depending_is_model T dep pr pf arch H fd A [l] Wl) as [E2 _].
  rewrite E1, E2. do 3 f_equal. unfold find_dependingL, dsts. rewrite HA. cbn [app flat_map scanL].
  unfold scan_step. rewrite Hst'. reflexivity.
Qed.
Print Assumptions C06gen_later_store_kills.

(* store-to-load reports carry exactly the flag "storeload_dep" and stem from a memory destination *)
Theorem C06gen_storeload_reports : forall (T : Type) dep pr pf arch, tie_hyps dep pr pf arch ->
  forall fd (A : line (T:=T)) (rest : list (line (T:=T))), Forall wf_line rest ->
  exists reps, g_find_depending pr pf arch (emb_line A) (VList (map emb_line rest)) (VBool fd) = DOk (VList (map emb_report reps)) /\
    forall (B : line (T:=T)), In (B, FStoreLoad) reps ->
      exists m s, In (OMem m) (dsts A) /\ is_memload m B s = true.
Proof.
  intros T dep pr pf arch H fd A rest Wf. destruct (C03gen_find_depending_is_model T dep pr pf arch H fd A rest Wf) as [E _].
  exists (find_dependingL dep fd A rest). split; [exact E|]. intros B Hin.
  unfold find_dependingL in Hin. apply in_flat_map in Hin. destruct Hin as (d & Hd & Hs).
  clear E Wf. revert Hs. generalize (update_changes (update_changes [] (l_chg A)) (l_chg_post A)).
  induction rest as [|l more IH]; intros s0 Hs; [contradiction|].
  cbn [scanL] in Hs. unfold scan_step, flag_of in Hs.
  destruct d as [r|n|m|].
  - destruct (is_written dep (OReg r) l).
    + destruct (is_read dep (OReg r) l); [|contradiction]. destruct Hs as [Eq|[]]. inversion Eq. destruct (r_pidx r); discriminate.
    + apply in_app_or in Hs. destruct Hs as [Hs|Hs]; [|exact (IH _ Hs)].
      destruct (is_read dep (OReg r) l); [|contradiction]. destruct Hs as [Eq|[]]. inversion Eq. destruct (r_pidx r); discriminate.
  - destruct fd.
    + destruct (is_written dep (OFlag n) l).
      * destruct (is_read dep (OFlag n) l); [|contradiction]. destruct Hs as [Eq|[]]. inversion Eq.
      * apply in_app_or in Hs. destruct Hs as [Hs|Hs]; [|exact (IH _ Hs)].
        destruct (is_read dep (OFlag n) l); [|contradiction]. destruct Hs as [Eq|[]]. inversion Eq.
    + cbn [app] in Hs. exact (IH _ Hs).
  - destruct (is_memstore m l).
    + destruct (is_memload m l (update_changes s0 (l_chg l))) eqn:ML; [|contradiction]. destruct Hs as [Eq|[]]. inversion Eq; subst.
      exists m, (update_changes s0 (l_chg B)). auto.
    + apply in_app_or in Hs. destruct Hs as [Hs|Hs]; [|exact (IH _ Hs)].
      destruct (is_memload m l (update_changes s0 (l_chg l))) eqn:ML; [|contradiction]. destruct Hs as [Eq|[]]. inversion Eq; subst.
      exists m, (update_changes s0 (l_chg B)). auto.
  - cbn [app] in Hs. exact (IH _ Hs).
Qed.
Print Assumptions C06gen_storeload_reports.

(* non-vacuity: x86  mov %rdx,8(%rax) ; add $8,%rax ; mov 0(%rax),%rsi  through the regenerated functions: the bump reported by
   get_reg_changes is accounted for, the load is reported with the store-to-load flag *)
Example C06gen_nonvacuous :
  let rax := mkR "rax" "" false in let rdx := mkR "rdx" "" false in let rsi := mkR "rsi" "" false in
  let A := mkL (T:=nat) 1%nat (Some ([OReg rdx], [OMem (mkM (Some rax) None 1 (OImm 8) false false 0%nat)], [])) 1%nat 1%nat false [] [] in
  let B := mkL (T:=nat) 2%nat (Some ([], [], [OReg rax])) 1%nat 1%nat false [("rax", Some ("rax", 8%Z))] [] in
  let C := mkL (T:=nat) 3%nat (Some ([OMem (mkM (Some rax) None 1 (OImm 0) false false 1%nat)], [OReg rsi], [])) 1%nat 1%nat false [] [] in
  g_find_depending px g_x86_is_flag_dependend_of some_arch_sem (emb_line A) (VList [emb_line B; emb_line C]) (VBool false) =
    DOk (VList [VTuple [emb_line C; VList [VStr "storeload_dep"]]]) /\
  g_is_memload (emb_mem (mkM (Some rax) None 1 (OImm 8) false false 0%nat)) (emb_line C) (emb_changes [("rax", Some ("rax", 8%Z))]) = DOk (VBool true) /\
  g_is_memload (emb_mem (mkM (Some rax) None 1 (OImm 8) false false 0%nat)) (emb_line C) (emb_changes []) = DOk (VBool false).
Proof. repeat split; vm_compute; reflexivity. Qed.
