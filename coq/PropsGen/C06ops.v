(* Property C06 (with C03) -- the register changes the dependency scan tracks are the architectural effect.
   `operations` is REGENERATED on every run from /repo's ISA data bases (tools/gen_regchg.py -> Gen/Operations.v):
   one entry per ISA instruction form with an `operation:` string, the string parsed into the statement AST of
   Model/RegChanges.v.  Proofs: Proofs/RegChanges.v (semantics, generic lemmas, the per-entry tactic solve_entry).
   Compiled by checks/c06.py (harness/regchg.py), not by make. *)
From Coq Require Import ZArith List Bool String Lia.
From OV Require Import Model.Num Model.Pressure Model.Deps Model.RegChanges Proofs.MemDep Proofs.RegChanges Gen.Operations.
Import ListNotations.
Open Scope Z_scope.
Open Scope string_scope.

(* EVERY operation string of the shipped ISA data bases: for every instruction matching the entry's operand pattern (all
   register choices incl. the same register in several positions, all immediates), get_reg_changes (before the sub-register
   rule) returns a dict, no reported origin is another reported register, origins are register operands, and whatever
   the architectural effect (d, v) is: d is reported, nothing but d is reported, and a reported (name, value) for d
   satisfies  v = old name + value  (None = unknown).  Read against register files by name in C06_operations_tracking_sound,
   against architectural registers with sub-register aliasing in C06_operations_sound_with_aliasing *)
Theorem C06_operations_sound : Forall entry_sound operations.
Proof.
  unfold operations.
  repeat (apply Forall_cons; [unfold entry_sound; cbn [oe_pat oe_x86 oe_mnem]; solve_entry|]).
  apply Forall_nil.
Qed.
Print Assumptions C06_operations_sound.

(* non-vacuity: every entry's instruction is in the vocabulary of the architectural semantics (a step exists) *)
Theorem C06_operations_in_vocabulary : Forall entry_inhabited operations.
Proof.
  apply Forall_forall. intros e He. apply inhabited_b_sound.
  assert (H : forallb inhabited_b operations = true) by (vm_compute; reflexivity).
  rewrite forallb_forall in H. exact (H e He).
Qed.
Print Assumptions C06_operations_in_vocabulary.

Example C06_table_not_empty : operations <> [].
Proof. discriminate. Qed.

(* composition with Proofs/MemDep.v: the hypothesis `apply_change` / `describes` of C06_tracking_sound is discharged for
   every instruction of the table -- the tracked state after KernelDG._update_reg_changes describes the register file
   after the instruction (register files by name, unbounded integers; `fulls` = the full-width names reported for
   written sub-registers, none of them an operand of the instruction) ... *)
Theorem C06_operations_tracking_sound : forall e, In e operations ->
  forall ops fulls, matches (oe_pat e) ops -> fulls_fresh ops fulls ->
  forall s rho0 rho rho',
    describes s rho0 rho -> arch_step (oe_x86 e) (oe_mnem e) ops rho rho' ->
    exists l cs, get_reg_changes true (pattern_dests (oe_pat e) ops) fulls ops (Some (entry_of e)) false = RcOk l /\
                 to_changes l = Some cs /\ describes (update_changes s cs) rho0 rho'.
Proof.
  intros e He. apply entry_tracking_sound. pose proof C06_operations_sound as H. rewrite Forall_forall in H. exact (H e He).
Qed.
Print Assumptions C06_operations_tracking_sound.

(* ... and a store->load link reported after it implies equal addresses for every register file *)
Theorem C06_operations_link_sound : forall e, In e operations ->
  forall ops fulls, matches (oe_pat e) ops -> fulls_fresh ops fulls ->
  forall s rho0 rho rho',
    describes s rho0 rho -> arch_step (oe_x86 e) (oe_mnem e) ops rho rho' ->
    exists l cs, get_reg_changes true (pattern_dests (oe_pat e) ops) fulls ops (Some (entry_of e)) false = RcOk l /\
                 to_changes l = Some cs /\
                 forall mem src, memload_one mem (update_changes s cs) src = true ->
                                 (match m_off src with OSym => False | _ => True end) ->
                                 addr_load rho' src = addr rho0 mem.
Proof.
  intros e He. apply entry_link_sound. pose proof C06_operations_sound as H. rewrite Forall_forall in H. exact (H e He).
Qed.
Print Assumptions C06_operations_link_sound.

(* the same table against the semantics WITH sub-register aliasing and wrap-around (any assignment of names to architectural
   registers `fam`, view widths `width`, full-width names `full_of`): when the `fulls` input is right, every reported change
   holds modulo the width of the reported register and every full-width register that is not reported is unchanged *)
Theorem C06_operations_sound_with_aliasing : forall fam width full_of e, In e operations ->
  forall ops fulls, matches (oe_pat e) ops -> fulls_ok fam full_of (pattern_dests (oe_pat e) ops) fulls ->
  exists l, get_reg_changes true (pattern_dests (oe_pat e) ops) fulls ops (Some (entry_of e)) false = RcOk l /\
            forall sg sg', alias_step fam width (oe_x86 e) (oe_mnem e) ops sg sg' -> alias_describe fam width full_of l sg sg'.
Proof.
  intros fam width full_of e He. apply entry_sound_alias. pose proof C06_operations_sound as H. rewrite Forall_forall in H. exact (H e He).
Qed.
Print Assumptions C06_operations_sound_with_aliasing.

(* ANY instruction, with or without operation: a full-width register that is not reported is unchanged, provided only
   architectural registers of destination registers change *)
Theorem C06_unreported_fullwidth_unchanged : forall fam width full_of dests fulls ops isa l (sg sg' : astate),
  get_reg_changes true dests fulls ops isa false = RcOk l -> fulls_ok fam full_of dests fulls ->
  (forall f, (forall d, In d dests -> f <> fam d) -> sg' f = sg f) ->
  forall r, is_full fam full_of r -> ~ In r (map fst l) -> aread fam width sg' r = aread fam width sg r.
Proof. intros fam width full_of. exact (unreported_fullwidth_unchanged fam width full_of). Qed.
Print Assumptions C06_unreported_fullwidth_unchanged.

(* a sub-register write leaves NO constant claim about the full-width register: it is reported, with change None *)
Theorem C06_subregister_write_no_constant_claim :
  (forall dests fulls ops isa l f,
     get_reg_changes true dests fulls ops isa false = RcOk l -> In f fulls ->
     In (f, None) l /\ forall st, ~ In (f, Some st) l) /\
  (forall fam full_of dests fulls ops isa l d,
     get_reg_changes true dests fulls ops isa false = RcOk l -> fulls_ok fam full_of dests fulls ->
     In d dests -> ~ is_full fam full_of d ->
     In (full_of (fam d), None) l /\ forall st, ~ In (full_of (fam d), Some st) l).
Proof. split; [exact subregister_write_no_claim|exact subregister_write_unknown]. Qed.
Print Assumptions C06_subregister_write_no_constant_claim.

(* the finding store-load-edge-spurious:subregister-write, in the model: without the full-width report (fulls = []) the dict
   of `addl $8, %eax` does not describe the step in the aliasing semantics *)
Theorem C06_without_fullwidth_report_refuted :
  exists l sg sg',
    get_reg_changes true ["eax"] [] ex_addl (Some ex_add_entry) false = RcOk l /\
    alias_step ex_fam ex_width true "ADD" ex_addl sg sg' /\ ~ alias_describe ex_fam ex_width ex_full l sg sg'.
Proof. exact without_fullwidth_report_refuted. Qed.
Print Assumptions C06_without_fullwidth_report_refuted.

(* the reported registers are exactly the destination registers and the full-width registers of written sub-registers,
   each once *)
Theorem C06_regchanges_only_destinations : forall dests fulls ops isa l,
  get_reg_changes true dests fulls ops isa false = RcOk l ->
  NoDup (map fst l) /\ forall r, In r (map fst l) <-> In r dests \/ In r fulls.
Proof. exact rc_keys. Qed.
Print Assumptions C06_regchanges_only_destinations.

(* no ISA entry / no operation, no write-back: every destination register becomes unknown -- sound for any instruction
   that changes destination registers only *)
Theorem C06_no_operation_tracking_sound : forall dests fulls ops isa s rho0 rho rho',
  has_operation isa = false -> forallb no_wb ops = true -> plain_step dests rho rho' -> describes s rho0 rho ->
  exists l cs, get_reg_changes true dests fulls ops isa false = RcOk l /\ to_changes l = Some cs /\
               describes (update_changes s cs) rho0 rho'.
Proof. exact plain_tracking_sound. Qed.
Print Assumptions C06_no_operation_tracking_sound.

(* AArch64 pre-index [b, #k]!: the base is reported as b + k *)
Theorem C06_preindexed_tracking_sound : forall dests fulls pre suf isa b k s rho0 rho rho',
  has_operation isa = false -> forallb no_wb pre = true -> forallb no_wb suf = true ->
  wb_step dests b k rho rho' -> describes s rho0 rho ->
  exists l cs, get_reg_changes true dests fulls (pre ++ IMem (Some b) (OffImm (Some k)) true PostFalse :: suf) isa false = RcOk l /\
               to_changes l = Some cs /\ describes (update_changes s cs) rho0 rho'.
Proof. exact preindexed_tracking_sound. Qed.
Print Assumptions C06_preindexed_tracking_sound.

(* AArch64 post-index [b], #v (or [b], xm): the two dicts of the scan, applied in the scan's order, follow the two
   architectural steps -- access with the old base (what is_memload of this very line sees), then the bump *)
Theorem C06_postindexed_tracking_sound : forall dests fulls pre suf isa b off p s rho0 rho rho_mid rho',
  let ops := (pre ++ IMem (Some b) off false p :: suf)%list in
  has_operation isa = false -> forallb no_wb pre = true -> forallb no_wb suf = true -> is_postdict p = true ->
  access_step dests b rho rho_mid -> bump_step b p rho_mid rho' -> describes s rho0 rho ->
  exists l cs lp cp,
    get_reg_changes true dests fulls ops isa false = RcOk l /\ to_changes l = Some cs /\
    get_reg_changes true dests fulls ops isa true = RcOk lp /\ to_changes lp = Some cp /\
    describes (update_changes s cs) rho0 rho_mid /\
    describes (update_changes (update_changes s cs) cp) rho0 rho'.
Proof. exact postindexed_tracking_sound. Qed.
Print Assumptions C06_postindexed_tracking_sound.

(* the dict of one instruction may be applied entry by entry (as _update_reg_changes does) when it has no repeated key and
   no reported origin is another reported register *)
Theorem C06_dict_applied_sequentially_sound : forall cs s rho0 rho rho',
  NoDup (map fst cs) -> safe_origin cs -> changes_hold cs rho rho' ->
  describes s rho0 rho -> describes (update_changes s cs) rho0 rho'.
Proof. exact update_changes_describes. Qed.
Print Assumptions C06_dict_applied_sequentially_sound.

(* why x86 SBB gpr,gpr and AArch64 ADDS/SUBS reg,reg,reg must not carry an operation: a register operand's 'value' (0 =
   unchanged relative to itself) used as an addend yields a wrong constant *)
Theorem C06_register_addend_refuted :
  ~ entry_sound sbb_regreg_entry /\ ~ entry_sound adds_regreg_entry.
Proof. split; [exact register_addend_refuted_x86 | exact register_addend_refuted_a64]. Qed.
Print Assumptions C06_register_addend_refuted.
