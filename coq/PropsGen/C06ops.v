(* Property C06 (with C03) -- the register changes the dependency scan tracks are the architectural effect.
   `operations` is REGENERATED on every run from /repo's ISA data bases (tools/gen_regchg.py -> Gen/Operations.v):
   one entry per ISA instruction form with an `operation:` string, the string parsed into the statement AST of
   Model/RegChanges.v.  Proofs: Proofs/RegChanges.v (semantics, generic lemmas, the per-entry tactic solve_entry).
   Compiled by checks/c06.py (harness/regchg.py), not by make. *)
From Coq Require Import ZArith List Bool String Lia.
From OV Require Import Model.Num Model.Pressure Model.Deps Model.RegChanges Proofs.MemDep Proofs.RegChanges Gen.Operations.
Import ListNotations.
Open Scope Z_scope.
Open Scope string_scope.

(* EVERY operation string of the shipped ISA data bases: for every instruction matching the entry's operand pattern (all
   register choices incl. the same register in several positions, all immediates), get_reg_changes returns a dict, no
   reported origin is another reported register, and for every architectural step of the instruction a reported
   (name, value) means  new reg = old name + value,  None means unknown, unreported registers are unchanged *)
Theorem C06_operations_sound : Forall entry_sound operations.
Proof.
  unfold operations.
  repeat (apply Forall_cons; [unfold entry_sound; cbn [oe_pat oe_x86 oe_mnem]; solve_entry|]).
  apply Forall_nil.
Qed.
Print Assumptions C06_operations_sound.

(* non-vacuity: every entry's instruction is in the vocabulary of the architectural semantics (a step exists) *)
Theorem C06_operations_in_vocabulary : Forall entry_inhabited operations.
Proof.
  apply Forall_forall. intros e He. apply inhabited_b_sound.
  assert (H : forallb inhabited_b operations = true) by (vm_compute; reflexivity).
  rewrite forallb_forall in H. exact (H e He).
Qed.
Print Assumptions C06_operations_in_vocabulary.

Example C06_table_not_empty : operations <> [].
Proof. discriminate. Qed.

(* composition with Proofs/MemDep.v: the hypothesis `apply_change` / `describes` of C06_tracking_sound is discharged for
   every instruction of the table -- the tracked state after KernelDG._update_reg_changes describes the register file
   after the instruction ... *)
Theorem C06_operations_tracking_sound : forall e, In e operations ->
  forall ops, matches (oe_pat e) ops ->
  forall s rho0 rho rho',
    describes s rho0 rho -> arch_step (oe_x86 e) (oe_mnem e) ops rho rho' ->
    exists l cs, get_reg_changes true (pattern_dests (oe_pat e) ops) ops (Some (entry_of e)) false = RcOk l /\
                 to_changes l = Some cs /\ describes (update_changes s cs) rho0 rho'.
Proof.
  intros e He. apply entry_tracking_sound. pose proof C06_operations_sound as H. rewrite Forall_forall in H. exact (H e He).
Qed.
Print Assumptions C06_operations_tracking_sound.

(* ... and a store->load link reported after it implies equal addresses for every register file *)
Theorem C06_operations_link_sound : forall e, In e operations ->
  forall ops, matches (oe_pat e) ops ->
  forall s rho0 rho rho',
    describes s rho0 rho -> arch_step (oe_x86 e) (oe_mnem e) ops rho rho' ->
    exists l cs, get_reg_changes true (pattern_dests (oe_pat e) ops) ops (Some (entry_of e)) false = RcOk l /\
                 to_changes l = Some cs /\
                 forall mem src, memload_one mem (update_changes s cs) src = true ->
                                 (match m_off src with OSym => False | _ => True end) ->
                                 addr_load rho' src = addr rho0 mem.
Proof.
  intros e He. apply entry_link_sound. pose proof C06_operations_sound as H. rewrite Forall_forall in H. exact (H e He).
Qed.
Print Assumptions C06_operations_link_sound.

(* registers that are not destinations are never reported; every destination register is reported exactly once *)
Theorem C06_regchanges_only_destinations : forall dests ops isa l,
  get_reg_changes true dests ops isa false = RcOk l ->
  NoDup (map fst l) /\ forall r, In r (map fst l) <-> In r dests.
Proof. exact rc_keys. Qed.
Print Assumptions C06_regchanges_only_destinations.

(* no ISA entry / no operation, no write-back: every destination register becomes unknown -- sound for any instruction
   that changes destination registers only *)
Theorem C06_no_operation_tracking_sound : forall dests ops isa s rho0 rho rho',
  has_operation isa = false -> forallb no_wb ops = true -> plain_step dests rho rho' -> describes s rho0 rho ->
  exists l cs, get_reg_changes true dests ops isa false = RcOk l /\ to_changes l = Some cs /\
               describes (update_changes s cs) rho0 rho'.
Proof. exact plain_tracking_sound. Qed.
Print Assumptions C06_no_operation_tracking_sound.

(* AArch64 pre-index [b, #k]!: the base is reported as b + k *)
Theorem C06_preindexed_tracking_sound : forall dests pre suf isa b k s rho0 rho rho',
  has_operation isa = false -> forallb no_wb pre = true -> forallb no_wb suf = true ->
  wb_step dests b k rho rho' -> describes s rho0 rho ->
  exists l cs, get_reg_changes true dests (pre ++ IMem (Some b) (OffImm (Some k)) true PostFalse :: suf) isa false = RcOk l /\
               to_changes l = Some cs /\ describes (update_changes s cs) rho0 rho'.
Proof. exact preindexed_tracking_sound. Qed.
Print Assumptions C06_preindexed_tracking_sound.

(* AArch64 post-index [b], #v (or [b], xm): the two dicts of the scan, applied in the scan's order, follow the two
   architectural steps -- access with the old base (what is_memload of this very line sees), then the bump *)
Theorem C06_postindexed_tracking_sound : forall dests pre suf isa b off p s rho0 rho rho_mid rho',
  let ops := (pre ++ IMem (Some b) off false p :: suf)%list in
  has_operation isa = false -> forallb no_wb pre = true -> forallb no_wb suf = true -> is_postdict p = true ->
  access_step dests b rho rho_mid -> bump_step b p rho_mid rho' -> describes s rho0 rho ->
  exists l cs lp cp,
    get_reg_changes true dests ops isa false = RcOk l /\ to_changes l = Some cs /\
    get_reg_changes true dests ops isa true = RcOk lp /\ to_changes lp = Some cp /\
    describes (update_changes s cs) rho0 rho_mid /\
    describes (update_changes (update_changes s cs) cp) rho0 rho'.
Proof. exact postindexed_tracking_sound. Qed.
Print Assumptions C06_postindexed_tracking_sound.

(* the dict of one instruction may be applied entry by entry (as _update_reg_changes does) when it has no repeated key and
   no reported origin is another reported register *)
Theorem C06_dict_applied_sequentially_sound : forall cs s rho0 rho rho',
  NoDup (map fst cs) -> safe_origin cs -> changes_hold cs rho rho' ->
  describes s rho0 rho -> describes (update_changes s cs) rho0 rho'.
Proof. exact update_changes_describes. Qed.
Print Assumptions C06_dict_applied_sequentially_sound.

(* why x86 SBB gpr,gpr and AArch64 ADDS/SUBS reg,reg,reg must not carry an operation: a register operand's 'value' (0 =
   unchanged relative to itself) used as an addend yields a wrong constant *)
Theorem C06_register_addend_refuted :
  ~ entry_sound sbb_regreg_entry /\ ~ entry_sound adds_regreg_entry.
Proof. split; [exact register_addend_refuted_x86 | exact register_addend_refuted_a64]. Qed.
Print Assumptions C06_register_addend_refuted.
