(* Property C12 -- register dependence equals architectural register overlap.
   dep86 / depA64 are the functions REGENERATED from /repo's parsers (Gen/RegDep*.v);
   overlap86 / overlapA64 and the universes are the hand-written architectural
   specification (Model/RegArch.v).  The domain is finite (the universe of register names
   stated in the theorems), so the exhaustive sweep by vm_compute, lifted with
   forallb_forall, is a proof for exactly that universe. *)
From Coq Require Import String Ascii List Bool Arith.
From OV Require Import Model.PyString Model.RegRec Model.RegArch Gen.RegDepX86 Gen.RegDepA64.
Import ListNotations.

Definition dep86 (a b : nat * string) : bool :=
  x86_is_reg_dependend_of (mkreg (snd a) "") (mkreg (snd b) "").
Definition depA64 (a b : a64reg) : bool :=
  a64_is_reg_dependend_of (mkreg (a_name a) (a_prefix a)) (mkreg (a_name b) (a_prefix b)).

Lemma sweep86 :
  forallb (fun p => Bool.eqb (dep86 (fst p) (snd p)) (overlap86 (fst p) (snd p))) (list_prod U86 U86) = true.
Proof. vm_compute. reflexivity. Qed.

Lemma sweepA64 :
  forallb (fun p => Bool.eqb (depA64 (fst p) (snd p)) (overlapA64 (fst p) (snd p))) (list_prod UA64 UA64) = true.
Proof. vm_compute. reflexivity. Qed.

Lemma C12_x86_lemma : forall a b, In a U86 -> In b U86 -> dep86 a b = overlap86 a b.
Proof.
  intros a b Ha Hb. pose proof sweep86 as H. rewrite forallb_forall in H.
  specialize (H (a, b) (in_prod _ _ _ _ Ha Hb)). cbn [fst snd] in H. apply eqb_prop in H. exact H.
Qed.

Lemma C12_a64_lemma : forall a b, In a UA64 -> In b UA64 -> depA64 a b = overlapA64 a b.
Proof.
  intros a b Ha Hb. pose proof sweepA64 as H. rewrite forallb_forall in H.
  specialize (H (a, b) (in_prod _ _ _ _ Ha Hb)). cbn [fst snd] in H. apply eqb_prop in H. exact H.
Qed.

(* the overlap relations are equivalences by construction *)
Lemma overlap86_equiv :
  (forall a, overlap86 a a = true) /\ (forall a b, overlap86 a b = overlap86 b a) /\
  (forall a b c, overlap86 a b = true -> overlap86 b c = true -> overlap86 a c = true).
Proof.
  unfold overlap86. repeat split; intros.
  - apply Nat.eqb_refl.
  - apply Nat.eqb_sym.
  - apply Nat.eqb_eq in H, H0. apply Nat.eqb_eq. congruence.
Qed.

Lemma a64class_eqb_eq a b : a64class_eqb a b = true <-> a = b.
Proof. destruct a, b; simpl; split; congruence. Qed.

Lemma overlapA64_equiv :
  (forall a, overlapA64 a a = true) /\ (forall a b, overlapA64 a b = overlapA64 b a) /\
  (forall a b c, overlapA64 a b = true -> overlapA64 b c = true -> overlapA64 a c = true).
Proof.
  unfold overlapA64. repeat split; intros.
  - rewrite String.eqb_refl. destruct (a_class a); reflexivity.
  - rewrite String.eqb_sym. f_equal. destruct (a_class a), (a_class b); reflexivity.
  - apply andb_true_iff in H, H0. destruct H as [H1 H2], H0 as [H3 H4].
    apply a64class_eqb_eq in H1, H3. apply String.eqb_eq in H2, H4.
    apply andb_true_iff. split; [apply a64class_eqb_eq | apply String.eqb_eq]; congruence.
Qed.

(* ---------------------------------------------------------------- property theorems *)
Theorem C12_x86_dep_iff_overlap :
  forall a b, In a U86 -> In b U86 -> dep86 a b = overlap86 a b.
Proof. exact C12_x86_lemma. Qed.
Print Assumptions C12_x86_dep_iff_overlap.

Theorem C12_a64_dep_iff_overlap :
  forall a b, In a UA64 -> In b UA64 -> depA64 a b = overlapA64 a b.
Proof. exact C12_a64_lemma. Qed.
Print Assumptions C12_a64_dep_iff_overlap.

Theorem C12_x86_equivalence :
  (forall a, In a U86 -> dep86 a a = true) /\
  (forall a b, In a U86 -> In b U86 -> dep86 a b = dep86 b a) /\
  (forall a b c, In a U86 -> In b U86 -> In c U86 -> dep86 a b = true -> dep86 b c = true -> dep86 a c = true).
Proof.
  destruct overlap86_equiv as (R & S & T). repeat split; intros.
  - rewrite C12_x86_lemma by assumption. apply R.
  - rewrite !C12_x86_lemma by assumption. apply S.
  - rewrite C12_x86_lemma in * by assumption. eapply T; eassumption.
Qed.
Print Assumptions C12_x86_equivalence.

Theorem C12_a64_equivalence :
  (forall a, In a UA64 -> depA64 a a = true) /\
  (forall a b, In a UA64 -> In b UA64 -> depA64 a b = depA64 b a) /\
  (forall a b c, In a UA64 -> In b UA64 -> In c UA64 -> depA64 a b = true -> depA64 b c = true -> depA64 a c = true).
Proof.
  destruct overlapA64_equiv as (R & S & T). repeat split; intros.
  - rewrite C12_a64_lemma by assumption. apply R.
  - rewrite !C12_a64_lemma by assumption. apply S.
  - rewrite C12_a64_lemma in * by assumption. eapply T; eassumption.
Qed.
Print Assumptions C12_a64_equivalence.

(* case-insensitivity and "different families never dependent" are instances of the iff:
   U86/UA64 contain every name in lower and upper case with the same family tag. *)
Theorem C12_cross_family_never :
  (forall a b, In a U86 -> In b U86 -> fst a <> fst b -> dep86 a b = false) /\
  (forall a b, In a UA64 -> In b UA64 -> overlapA64 a b = false -> depA64 a b = false).
Proof.
  split; intros.
  - rewrite C12_x86_lemma by assumption. unfold overlap86. apply Nat.eqb_neq. assumption.
  - rewrite C12_a64_lemma by assumption. assumption.
Qed.
Print Assumptions C12_cross_family_never.

(* non-vacuity: the universes have the advertised size and contain the interesting names *)
Example U86_size : length U86 = 360 /\ In (4, "ebp"%string) U86 /\ In (0, "AH"%string) U86 /\ In (15, "r15b"%string) U86.
Proof. vm_compute. intuition. Qed.
Example UA64_size : length UA64 = 656.
Proof. vm_compute. reflexivity. Qed.
