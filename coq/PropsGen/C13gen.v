(* Property C13, translation tie: the definitions REGENERATED on every run by tools/gen_c13.py from the current source of
   osaca/frontend.py (Gen/ReportGen.v: _is_comment, _get_flag_symbols, _missing_instruction_error, _user_warnings_header,
   _user_warnings_footer, _get_max_port_len, _get_port_pressure, _get_node_by_lineno, _get_lcd_cp_ports, combined_view,
   full_analysis_dict) are the hand model of Model/Report.v under an explicit layout (Model/ReportPy.v), for every input --
   and for EVERY repr(float), str(sum(...)) and layout helper (the Section parameters of the generated file).
   This file is compiled by the check (harness/c13_tie.py), not by make. *)
From Coq Require Import ZArith List Bool String Ascii Arith Lia.
From Coq Require Import PrimFloat.
From OV Require Import Model.Num Model.Fmt Model.PyString Model.Pressure Model.Report Model.ReportPy.
From OV Require Import Proofs.Fmt Proofs.FmtLen Proofs.Report Proofs.ReportThm Proofs.ReportPy Gen.ReportGen.
Import ListNotations.
Open Scope string_scope.

Lemma bind_ok_id {A} (r : res A) : bind r (fun x => Ok x) = r.
Proof. destruct r; reflexivity. Qed.

(* ------------------------------------------------------------------ _is_comment, _get_flag_symbols *)
Lemma g_is_comment_eq : forall x, g_is_comment x = Ok (andb (p_comment x) (negb (p_mnemonic x))).
Proof. reflexivity. Qed.

Lemma g_get_flag_symbols_eq : forall l, g_get_flag_symbols l = Ok (flag_symbols (flagset_of l)).
Proof.
  intros l. rewrite flag_symbols_of. unfold g_get_flag_symbols. cbv zeta.
  destruct (py_in_list "not_bound" l), (py_in_list "tp_unknown" l), (py_in_list "hidden_load" l); reflexivity.
Qed.

(* ------------------------------------------------------------------ _missing_instruction_error *)
Lemma g_missing_instruction_error_eq : forall n, g_missing_instruction_error (Z.of_nat n) = Ok (missing_text n).
Proof.
  intros n. unfold g_missing_instruction_error, missing_text. cbv zeta.
  rewrite py_fmt_d_0, py_str_mul_len, py_str_Z_nat. rewrite ?sapp_assoc. reflexivity.
Qed.

(* ------------------------------------------------------------------ _user_warnings_header / _footer *)
Definition ARCH_MARK := "WARNING: No micro-architecture was specified".
Definition LENGTH_MARK := "WARNING: You are analyzing a large amount of instruction forms".
Definition LCD_MARK := "WARNING: LCD analysis timed out".

Lemma g_user_warnings_header_marks : forall a l, exists s, g_user_warnings_header a l = Ok s
  /\ py_substr ARCH_MARK s = a /\ py_substr LENGTH_MARK s = l /\ py_substr LCD_MARK s = false.
Proof. intros [|] [|]; eexists; (split; [reflexivity|]); vm_compute; repeat split. Qed.

Lemma g_user_warnings_footer_marks : forall c, exists s, g_user_warnings_footer c = Ok s
  /\ py_substr LCD_MARK s = c /\ py_substr ARCH_MARK s = false /\ py_substr LENGTH_MARK s = false.
Proof. intros [|]; eexists; (split; [reflexivity|]); vm_compute; repeat split. Qed.

(* ------------------------------------------------------------------ _get_node_by_lineno, _get_lcd_cp_ports *)
Lemma g_get_node_by_lineno_eq : forall n k, g_get_node_by_lineno n k = Ok (find (fun x => Z.eqb (p_num x) n) k).
Proof.
  intros n k. unfold g_get_node_by_lineno. cbv zeta. rewrite map_id, find_filter_hd.
  destruct (filter (fun v_instr => Z.eqb (p_num v_instr) n) k) as [|x r]; reflexivity.
Qed.

(* the call made by combined_view: cp_dg = cp_kernel if the line is on the critical path, else None *)
Lemma g_get_lcd_cp_ports_eq : forall repr n cp dl sep,
  g_get_lcd_cp_ports repr n (if py_in_Z n (map p_num cp) then Some cp else None) dl sep
  = Ok (lcdcp_text repr sep (cp_cell (map cp_entry_of cp) n) dl).
Proof.
  intros repr n cp dl sep. unfold g_get_lcd_cp_ports. cbv zeta. rewrite in_Z_find, cp_cell_of.
  destruct (find (fun x => Z.eqb (p_num x) n) cp) as [x|] eqn:F.
  - assert (NE : py_optlist_truth (Some cp) = true) by (destruct cp; [discriminate F|reflexivity]).
    rewrite NE. cbn [py_optlist_val]. rewrite g_get_node_by_lineno_eq, F. cbn [bind py_opt_res].
    destruct dl; reflexivity.
  - cbn [py_optlist_truth bind]. destruct dl; reflexivity.
Qed.

(* any cp_dg: a line that is not in a non-empty cp_dg raises (attribute of None) *)
Lemma g_get_lcd_cp_ports_any : forall repr n cp_dg dl sep,
  g_get_lcd_cp_ports repr n cp_dg dl sep =
  match cp_dg with
  | Some (y :: l) => match find (fun x => Z.eqb (p_num x) n) (y :: l) with
                     | Some x => Ok (lcdcp_text repr sep (Some (p_lat_cp x)) dl)
                     | None => Err EType
                     end
  | _ => Ok (lcdcp_text repr sep None dl)
  end.
Proof.
  intros repr n cp_dg dl sep. unfold g_get_lcd_cp_ports. cbv zeta. destruct cp_dg as [[|y l]|].
  - cbn [py_optlist_truth bind]. destruct dl; reflexivity.
  - cbn [py_optlist_truth py_optlist_val]. rewrite g_get_node_by_lineno_eq.
    destruct (find (fun x => Z.eqb (p_num x) n) (y :: l)); cbn [bind py_opt_res]; [destruct dl|]; reflexivity.
  - cbn [py_optlist_truth bind]. destruct dl; reflexivity.
Qed.

(* ------------------------------------------------------------------ _get_max_port_len *)
Lemma g_get_max_port_len_fold : forall ports k, (forall x, In x k -> List.length (p_press x) <= List.length ports)%nat ->
  g_get_max_port_len ports k = Ok (fold_left upd (map p_press k) (map (fun _ => 4%Z) ports)).
Proof.
  intros ports k H. unfold g_get_max_port_len. cbv zeta. rewrite (maxlen_outer _ k).
  - reflexivity.
  - intros x pl Hx Hl. cbv beta. erewrite maxlen_line; [reflexivity| |exact Hl]. intros i v pl'. cbv beta iota.
    destruct (nth_res pl' i) as [t|]; cbn [bind]; [|reflexivity]. fold (flen v).
    destruct (t <? flen v)%Z; [apply bind_ok_id|reflexivity].
  - intros x Hx. rewrite map_length. apply H. exact Hx.
Qed.

Lemma g_get_max_port_len_eq : forall ports k, (forall x, In x k -> List.length (p_press x) = List.length ports) ->
  g_get_max_port_len ports k = Ok (map Z.of_nat (port_lens (analysis_of ports k [] [] false))).
Proof.
  intros ports k H. rewrite g_get_max_port_len_fold by (intros x Hx; rewrite (H x Hx); lia).
  rewrite max_port_len_model by exact H. reflexivity.
Qed.

(* ------------------------------------------------------------------ _get_port_pressure *)
Lemma g_get_port_pressure_list : forall ports repr vs pn used seps,
  vs <> [] -> List.length ports = List.length vs -> List.length pn = List.length vs -> List.length seps = List.length vs ->
  (forall v, In v vs -> repr_ok repr v) ->
  g_get_port_pressure ports repr vs (map Z.of_nat pn) used (SList seps)
  = Ok (press_line (press_cells ports pn used vs) (tights pn vs) pn seps).
Proof.
  intros ports repr vs pn used seps NE H1 H2 H3 Hr. unfold g_get_port_pressure. cbv zeta.
  assert (NS : seps <> []) by (destruct seps; [destruct vs; [congruence|discriminate]|discriminate]).
  rewrite (py_last_res_last seps "" NS). cbn [bind].
  rewrite (port_pressure_loop repr ports used vs pn seps) by (try assumption; intros; reflexivity).
  cbn [bind]. unfold press_line. rewrite ?sapp_assoc. reflexivity.
Qed.

(* the str form of the separator parameter is the list form with one separator per value *)
Lemma g_get_port_pressure_str : forall ports repr vs pl used sep,
  g_get_port_pressure ports repr vs pl used (SStr sep) = g_get_port_pressure ports repr vs pl used (SList (map (fun _ => sep) vs)).
Proof. reflexivity. Qed.

(* an empty value list: separator[-1] raises for the str form, prints the last separator for a non-empty list *)
Lemma g_get_port_pressure_empty : forall ports repr pl used sep,
  g_get_port_pressure ports repr [] pl used (SStr sep) = Err EIndex.
Proof. reflexivity. Qed.

(* ------------------------------------------------------------------ combined_view *)
Definition wf_lines (ports : list string) (kernel : list pyline) : Prop :=
  forall x, In x kernel -> List.length (p_press x) = List.length ports.

Lemma g_combined_view_eq : forall ports repr str_sum osl opl kernel cp dep t q r,
  let a := analysis_of ports kernel cp dep t in
  let seps := osl "|" " " in
  report_model q a = Some r ->
  ports <> [] -> wf_lines ports kernel -> List.length seps = List.length ports ->
  NoDup (map fst dep) ->
  (forall x v, In x kernel -> In v (p_press x) -> repr_ok repr v) ->
  (forall v, In v (tp_sum (a_kernel a)) -> repr_ok repr v) ->
  g_combined_view ports repr str_sum osl opl kernel cp dep (q_ignore_unknown q) true
  = Ok (cv_text repr str_sum seps (opl (map Z.of_nat (port_lens a)) "|") a kernel r).
Proof.
  intros ports repr str_sum osl opl kernel cp dep t q r a seps HR NP WF HS ND R1 R2. subst seps.
  destruct (report_model_some q a r HR) as (NK & Hrows & _ & _ & _ & _ & Hsum & Hmiss).
  assert (NK' : kernel <> []) by (intros ->; apply NK; reflexivity).
  assert (HT : List.length (tp_sum (a_kernel a)) = List.length ports) by (exact (tp_sum_length_py ports kernel NK' WF)).
  unfold g_combined_view. cbv zeta.
  rewrite (g_get_max_port_len_eq ports kernel WF). cbn [bind].
  change (port_lens (analysis_of ports kernel [] [] false)) with (port_lens a).
  rewrite (py_last_res_last kernel dummy_line NK'). cbn [bind].
  rewrite (lcd_pick_model ports kernel cp dep t ND). fold a. cbn [bind].
  rewrite (py_for_sconcat (fun x => row_text repr (port_lens a) (osl "|" " ") x (row_of a (port_lens a) (aline_of x)))).
  2: { intros x s Hx. cbn [negb bind]. rewrite used_of_eq.
       assert (NE : p_press x <> []) by (intros E; apply NP; apply length_zero_iff_nil; rewrite <- (WF x Hx), E; reflexivity).
       rewrite (g_get_port_pressure_list ports repr (p_press x) (port_lens a) (used_of x) (osl "|" " ") NE).
       2: symmetry; apply WF; exact Hx.
       2: rewrite port_lens_length; symmetry; apply WF; exact Hx.
       2: rewrite (WF x Hx); exact HS.
       2: intros v Hv; exact (R1 x v Hx Hv).
       cbn [bind]. rewrite g_get_lcd_cp_ports_eq. cbn [bind]. rewrite py_dictZ_get_model, row_of_line.
       unfold row_text, line_text. cbn [r_num r_press r_cp r_lcd r_flags].
       destruct (p_mnemonic x); [rewrite g_get_flag_symbols_eq|]; cbn [bind]; rewrite ?sapp_assoc; reflexivity. }
  cbn [bind]. rewrite flags_flat, unknown_exists.
  unfold cv_text. rewrite Hrows. change (a_kernel a) with (map aline_of kernel) in *. rewrite (map_map aline_of (row_of a (port_lens a)) kernel), zip_with_map.
  set (sup := andb (negb (q_ignore_unknown q)) (match unknown_lines (map aline_of kernel) with [] => false | _ => true end)) in *.
  destruct sup.
  - rewrite Hsum, Hmiss, unknown_count, g_missing_instruction_error_eq. cbn [bind].
    unfold cv_head. rewrite ?sapp_assoc. reflexivity.
  - rewrite Hsum, (tp_sum_res kernel NK'). cbn [bind]. rewrite g_get_port_pressure_str.
    set (ts := tp_sum (map aline_of kernel)) in *.
    assert (NT : ts <> []) by (intros E; apply NP; apply length_zero_iff_nil; rewrite <- HT, E; reflexivity).
    rewrite (g_get_port_pressure_list ports repr ts (port_lens a) [] (map (fun _ => " ") ts) NT).
    2: symmetry; exact HT.
    2: rewrite port_lens_length; symmetry; exact HT.
    2: apply map_length.
    2: exact R2.
    cbn [bind]. unfold cv_head, summary_text. cbn [s_press s_lcd a_cp a_ports analysis_of].
    change (a_cp a) with (map cp_entry_of cp). rewrite (map_map cp_entry_of cp_lat cp). rewrite ?sapp_assoc. reflexivity.
Qed.

(* ------------------------------------------------------------------ full_analysis_dict (the entries Model/Report.v models) *)
Lemma g_full_analysis_dict_eq : forall ports kernel aw lw cw cp dep,
  let a := analysis_of ports kernel cp dep cw in
  kernel <> [] -> wf_lines ports kernel -> NoDup (map fst dep) ->
  exists d, g_full_analysis_dict ports kernel tt aw lw cw cp dep = Ok d
    /\ pdd_warnings d = ((if aw then ["ArchWarning"] else []) ++ (if lw then ["LengthWarning"] else [])
                         ++ (if cw then ["LCDWarning"] else [])
                         ++ (match unknown_lines (a_kernel a) with [] => [] | _ => ["UnknownInstrWarning"] end))%list
    /\ (forall q, dd_warnings (dict_model q a) = pdd_warnings d -> ddict_of_py d = dict_model q a)
    /\ map fst (pdd_sum_press d) = ports
    /\ Forall (fun l => map fst (pd_press l) = ports) (pdd_kernel d).
Proof.
  intros ports kernel aw lw cw cp dep a NK WF ND.
  assert (HT : List.length (tp_sum (a_kernel a)) = List.length ports) by (exact (tp_sum_length_py ports kernel NK WF)).
  unfold g_full_analysis_dict. cbv zeta.
  rewrite !if_app_ok. cbn [bind]. rewrite !if_app_ok. cbn [bind]. rewrite !if_app_ok. cbn [bind]. rewrite !if_app_ok. cbn [bind].
  rewrite (tp_sum_res_or kernel NK). cbn [bind].
  rewrite (lcd_pick_model ports kernel cp dep cw ND). fold a. cbn [bind].
  rewrite (py_mapM_ok _ (fun x => Build_pydline (p_num x) (p_flags x) (p_lat_cp x) (p_lat_lcd x) (p_tp x) (combine ports (p_press x)))).
  2: { intros x Hx. apply in_map_iff in Hx. destruct Hx as (y & <- & Hy). cbn [set_lat_lcd p_press p_num p_flags p_lat_cp p_lat_lcd p_tp].
       rewrite (py_zip_ports_combine (p_press y) ports (WF y Hy)). reflexivity. }
  cbn [bind]. change (a_kernel a) with (map aline_of kernel) in HT. rewrite (py_zip_ports_combine _ ports HT). cbn [bind].
  eexists. split; [reflexivity|]. cbn [pdd_warnings pdd_sum_press pdd_kernel]. split; [|split; [|split]].
  - rewrite flags_flat, unknown_exists. cbn [app]. rewrite <- !app_assoc.
    change (a_kernel a) with (map aline_of kernel).
    destruct (unknown_lines (map aline_of kernel)); reflexivity.
  - intros q HW. unfold ddict_of_py, dict_model. cbn [pdd_warnings pdd_kernel pdd_sum_press pdd_cp pdd_lcd].
    unfold dict_model in HW. cbn [dd_warnings] in HW. rewrite <- HW. f_equal.
    + change (a_kernel a) with (map aline_of kernel). rewrite !map_map. apply map_ext_in. intros x Hx.
      unfold dline_of_py. cbn [pd_num pd_press pd_lat_cp pd_lat_lcd pd_flags pd_tp set_lat_lcd p_num p_press p_flags p_lat_cp p_lat_lcd p_tp
                                aline_of l_num l_press l_lat_cp l_flags l_tp].
      rewrite (map_snd_combine ports (p_press x) (WF x Hx)), py_dictZ_get_model. reflexivity.
    + change (a_kernel a) with (map aline_of kernel). apply map_snd_combine. exact HT.
    + change (a_cp a) with (map cp_entry_of cp). rewrite map_map. reflexivity.
  - apply map_fst_combine. exact HT.
  - apply Forall_forall. intros l Hl. apply in_map_iff in Hl. destruct Hl as (x & <- & Hx). apply in_map_iff in Hx.
    destruct Hx as (y & <- & Hy). cbn [pd_press set_lat_lcd p_press]. apply map_fst_combine. exact (WF y Hy).
Qed.

(* ------------------------------------------------------------------ loopcarried_dependencies *)
Lemma g_loopcarried_dependencies_eq : forall dep sep,
  NoDup (map fst dep) -> Forall lcd_entry_ok dep ->
  g_loopcarried_dependencies dep sep
  = Ok (lcd_head ++ sconcat (map (fun p => lcd_row_text sep (pl_root (snd p)) (lcd_row_of (entry_of p))) (sort_pairs dep)))
  /\ map (fun p => lcd_row_of (entry_of p)) (sort_pairs dep) = map lcd_row_of (sort_by_key (map entry_of dep)).
Proof.
  intros dep sep ND OK. split.
  - unfold g_loopcarried_dependencies. cbv zeta. rewrite sorted_keys, py_for_map.
    rewrite (py_for_sconcat (fun p => lcd_row_text sep (pl_root (snd p)) (lcd_row_of (entry_of p)))).
    + cbn [bind]. unfold lcd_head. rewrite ?sapp_assoc. reflexivity.
    + intros p s Hp. apply (proj1 (sort_pairs_in p dep)) in Hp. rewrite Forall_forall in OK.
      exact (lcd_row_step dep sep p s ND Hp (OK p Hp)).
  - rewrite <- sort_pairs_model.
    + rewrite map_map. reflexivity.
    + apply Forall_forall. intros p Hp. rewrite Forall_forall in OK. exact (proj1 (OK p Hp)).
Qed.

(* ================================================================== property theorems *)
(* (T1) _get_flag_symbols is Model/Report.v's flag_symbols on the flag list; hence X is shown iff tp_unknown is in the list *)
Theorem C13gen_flag_symbols_is_model : forall flags,
  g_get_flag_symbols flags = Ok (flag_symbols (flagset_of flags))
  /\ has_X (flag_symbols (flagset_of flags)) = py_in_list FLAG_TP_UNKWN flags.
Proof. intros flags. split; [apply g_get_flag_symbols_eq|apply flag_symbols_X]. Qed.
Print Assumptions C13gen_flag_symbols_is_model.

(* (T2) the missing-data warning states exactly the number it is given, as str(int), under a rule as long as that number *)
Theorem C13gen_missing_instruction_error_is_model : forall n, g_missing_instruction_error (Z.of_nat n) = Ok (missing_text n).
Proof. exact g_missing_instruction_error_eq. Qed.
Print Assumptions C13gen_missing_instruction_error_is_model.

(* (T3) which warning block appears when: the marker texts occur exactly under their flag, and in no other block *)
Theorem C13gen_warning_blocks :
  (forall a l, exists s, g_user_warnings_header a l = Ok s
     /\ py_substr ARCH_MARK s = a /\ py_substr LENGTH_MARK s = l /\ py_substr LCD_MARK s = false)
  /\ (forall c, exists s, g_user_warnings_footer c = Ok s
     /\ py_substr LCD_MARK s = c /\ py_substr ARCH_MARK s = false /\ py_substr LENGTH_MARK s = false).
Proof. split; [exact g_user_warnings_header_marks|exact g_user_warnings_footer_marks]. Qed.
Print Assumptions C13gen_warning_blocks.

(* (T4) the CP and LCD cells of a row: the model's cp_cell (first CP entry with the line's number) and the dict value, printed
        with repr right-aligned in 4 columns, blank when absent; a line missing from a non-empty cp_dg raises *)
Theorem C13gen_lcd_cp_cells_is_model : forall repr n cp dl sep,
  g_get_lcd_cp_ports repr n (if py_in_Z n (map p_num cp) then Some cp else None) dl sep
  = Ok (lcdcp_text repr sep (cp_cell (map cp_entry_of cp) n) dl).
Proof. exact g_get_lcd_cp_ports_eq. Qed.
Print Assumptions C13gen_lcd_cp_cells_is_model.

(* (T5) _get_max_port_len is Model/Report.v's port_lens: 4, or the longest '{:.2f}' of the column *)
Theorem C13gen_max_port_len_is_model : forall ports k, wf_lines ports k ->
  g_get_max_port_len ports k = Ok (map Z.of_nat (port_lens (analysis_of ports k [] [] false))).
Proof. exact g_get_max_port_len_eq. Qed.
Print Assumptions C13gen_max_port_len_is_model.

(* (T6) _get_port_pressure prints Model/Report.v's cells (press_cells: blank iff zero and unused port, else fmt_fixed with the
        model's number of decimals) and nothing else but blanks and separators; a shown cell is exactly render_cell *)
Theorem C13gen_port_pressure_is_model : forall ports repr vs pn used seps,
  vs <> [] -> List.length ports = List.length vs -> List.length pn = List.length vs -> List.length seps = List.length vs ->
  (forall v, In v vs -> repr_ok repr v) ->
  g_get_port_pressure ports repr vs (map Z.of_nat pn) used (SList seps)
  = Ok (press_line (press_cells ports pn used vs) (tights pn vs) pn seps).
Proof. exact g_get_port_pressure_list. Qed.
Print Assumptions C13gen_port_pressure_is_model.

(* (T6') the minimum-width field of '{:W.Pf}' with W = len(str(float(v)).split(".")[0]) never pads: rounding cannot lose an
         integer digit, so a shown cell is printed as exactly fmt_fixed (Props/C13.v fmt_fixed_reads_back applies to its characters) *)
Theorem C13gen_min_width_never_pads : forall d v, py_fmt_f (Z.of_nat (left_len v)) (Z.of_nat d) v = fmt_fixed d v.
Proof. intros d v. unfold py_fmt_f. rewrite Nat2Z.id. apply py_rjust_short. rewrite Nat2Z.id. apply left_len_le_fmt_fixed. Qed.
Print Assumptions C13gen_min_width_never_pads.

(* (T7) combined_view prints the model's report: one row per kernel line with the model's cells, CP/LCD cells and flag symbols,
        then the model's summary row (CP total: str(sum) of the CP latencies, LCD total: repr of the model's lcd_sum) or, exactly
        when the model suppresses it, the missing-data warning with the model's count *)
Theorem C13gen_combined_view_is_model : forall ports repr str_sum osl opl kernel cp dep t q r,
  let a := analysis_of ports kernel cp dep t in
  let seps := osl "|" " " in
  report_model q a = Some r ->
  ports <> [] -> wf_lines ports kernel -> List.length seps = List.length ports -> NoDup (map fst dep) ->
  (forall x v, In x kernel -> In v (p_press x) -> repr_ok repr v) ->
  (forall v, In v (tp_sum (a_kernel a)) -> repr_ok repr v) ->
  g_combined_view ports repr str_sum osl opl kernel cp dep (q_ignore_unknown q) true
  = Ok (cv_text repr str_sum seps (opl (map Z.of_nat (port_lens a)) "|") a kernel r).
Proof. exact g_combined_view_eq. Qed.
Print Assumptions C13gen_combined_view_is_model.

(* (T8) full_analysis_dict: Warnings, per-line LineNumber / Flags / LatencyCP / LatencyLCD / Throughput / PortPressure and the
        Summary are Model/Report.v's dict_model (given the same warning decisions); the port dicts are keyed by the model's ports *)
Theorem C13gen_full_analysis_dict_is_model : forall ports kernel aw lw cw cp dep,
  let a := analysis_of ports kernel cp dep cw in
  kernel <> [] -> wf_lines ports kernel -> NoDup (map fst dep) ->
  exists d, g_full_analysis_dict ports kernel tt aw lw cw cp dep = Ok d
    /\ pdd_warnings d = ((if aw then ["ArchWarning"] else []) ++ (if lw then ["LengthWarning"] else [])
                         ++ (if cw then ["LCDWarning"] else [])
                         ++ (match unknown_lines (a_kernel a) with [] => [] | _ => ["UnknownInstrWarning"] end))%list
    /\ (forall q, dd_warnings (dict_model q a) = pdd_warnings d -> ddict_of_py d = dict_model q a)
    /\ map fst (pdd_sum_press d) = ports
    /\ Forall (fun l => map fst (pd_press l) = ports) (pdd_kernel d).
Proof. exact g_full_analysis_dict_eq. Qed.
Print Assumptions C13gen_full_analysis_dict_is_model.

(* (T9) loopcarried_dependencies prints one row per LCD in the order of sorted(keys): first line number, latency with one
        decimal, root line, member lines -- the model's lcd_list (Props/C13.v lcd_list_complete applies to it) *)
Theorem C13gen_lcd_list_is_model : forall ports kernel cp dep t q r sep,
  let a := analysis_of ports kernel cp dep t in
  report_model q a = Some r -> NoDup (map fst dep) -> Forall lcd_entry_ok dep ->
  g_loopcarried_dependencies dep sep
  = Ok (lcd_head ++ sconcat (map (fun p => lcd_row_text sep (pl_root (snd p)) (lcd_row_of (entry_of p))) (sort_pairs dep)))
  /\ map (fun p => lcd_row_of (entry_of p)) (sort_pairs dep) = lcd_list r
  /\ (forall e, In e (a_lcd a) -> exists w, In w (lcd_list r) /\ lr_lat w = lcd_lat e /\ lr_members w = map fst (lcd_deps e))
  /\ List.length (lcd_list r) = List.length dep.
Proof.
  intros ports kernel cp dep t q r sep a HR ND OK. destruct (g_loopcarried_dependencies_eq dep sep ND OK) as (E1 & E2).
  destruct (report_model_some q a r HR) as (_ & _ & HL & _). destruct (lcd_list_complete_proof q a r HR) as (C1 & _ & C3).
  split; [exact E1|]. split; [rewrite HL; exact E2|]. split.
  - intros e He. destruct (C1 e He) as (w & W1 & W2 & W3 & _). exists w. auto.
  - rewrite C3. subst a. cbn [analysis_of a_lcd]. apply map_length.
Qed.
Print Assumptions C13gen_lcd_list_is_model.

(* (T10) the warning decisions of osaca.py:inspect (translated slice; the wiring of the two frontend calls is checked by the
         translator) are Model/Report.v's print_arch_warning / print_length_warning *)
Theorem C13gen_inspect_warning_decisions : forall q (lines : option string) klen,
  q_arch q <> Some ""%string -> py_optstr_truth lines = q_lines_given q ->
  g_print_arch_warning (q_arch q) = Ok (print_arch_warning q)
  /\ g_print_length_warning lines (Z.of_nat klen) (Z.of_nat (q_parsed q)) = Ok (print_length_warning q klen).
Proof.
  intros q lines klen HA HL. split.
  - unfold g_print_arch_warning, print_arch_warning. destruct (q_arch q) as [[|c s]|]; [congruence|reflexivity|reflexivity].
  - unfold g_print_length_warning, print_length_warning. rewrite HL. destruct (q_lines_given q); [reflexivity|]. f_equal.
    destruct (Nat.eqb_spec klen (q_parsed q)) as [E|E], (Nat.ltb_spec 100 klen) as [L|L];
      destruct (Z.eqb_spec (Z.of_nat klen) (Z.of_nat (q_parsed q))) as [E'|E'], (Z.ltb_spec 100 (Z.of_nat klen)) as [L'|L'];
      try reflexivity; try lia.
Qed.
Print Assumptions C13gen_inspect_warning_decisions.

(* ------------------------------------------------------------------ the C13 theorems for what the CODE returns *)
Section Code.
Context (ports : list string) (repr : float -> string) (str_sum : list float -> string)
        (osl : string -> string -> list string) (opl : list Z -> string -> string)
        (kernel cp : list pyline) (dep : list (string * pylcd)) (q : request) (aw lw cw : bool).
Let a := analysis_of ports kernel cp dep cw.
Hypothesis NP : ports <> [].
Hypothesis WF : wf_lines ports kernel.
Hypothesis HS : List.length (osl "|" " ") = List.length ports.
Hypothesis ND : NoDup (map fst dep).
Hypothesis R1 : forall x v, In x kernel -> In v (p_press x) -> repr_ok repr v.
Hypothesis R2 : forall v, In v (tp_sum (a_kernel a)) -> repr_ok repr v.
(* the warning decisions of osaca.py:inspect are Model/Report.v's *)
Hypothesis Haw : aw = print_arch_warning q.
Hypothesis Hlw : lw = print_length_warning q (List.length kernel).

Let text_of (r : report) := cv_text repr str_sum (osl "|" " ") (opl (map Z.of_nat (port_lens a)) "|") a kernel r.

(* whatever the two methods return is the rendering of one report structure r of the model and the model's dict *)
Lemma code_outputs : forall txt d,
  g_combined_view ports repr str_sum osl opl kernel cp dep (q_ignore_unknown q) true = Ok txt ->
  g_full_analysis_dict ports kernel tt aw lw cw cp dep = Ok d ->
  exists r, report_model q a = Some r /\ txt = text_of r /\ ddict_of_py d = dict_model q a.
Proof.
  intros txt d H1 H2.
  assert (NK : kernel <> []).
  { intros E. subst kernel. unfold g_full_analysis_dict in H2. cbv zeta in H2. rewrite !if_app_ok in H2. cbn [bind] in H2.
    rewrite !if_app_ok in H2. cbn [bind] in H2. rewrite !if_app_ok in H2. cbn [bind] in H2. rewrite !if_app_ok in H2.
    cbn in H2. discriminate H2. }
  assert (exists r, report_model q a = Some r) as (r & HR).
  { unfold report_model. subst a. cbn [analysis_of a_kernel]. destruct kernel; [congruence|]. cbn [map]. eexists. reflexivity. }
  exists r. split; [exact HR|]. split.
  - pose proof (g_combined_view_eq ports repr str_sum osl opl kernel cp dep cw q r HR NP WF HS ND R1 R2) as E.
    rewrite E in H1. injection H1 as <-. reflexivity.
  - destruct (g_full_analysis_dict_eq ports kernel aw lw cw cp dep NK WF ND) as (d' & E & W & D & _).
    rewrite E in H2. injection H2 as <-. apply D. rewrite W. unfold dict_model. cbn [dd_warnings].
    subst aw lw. subst a. cbn [analysis_of a_kernel a_timed_out]. rewrite map_length. reflexivity.
Qed.

(* non-emptiness of the hypotheses above: on a non-empty kernel both methods do return *)
Theorem C13gen_code_returns : kernel <> [] ->
  exists txt d, g_combined_view ports repr str_sum osl opl kernel cp dep (q_ignore_unknown q) true = Ok txt
             /\ g_full_analysis_dict ports kernel tt aw lw cw cp dep = Ok d.
Proof.
  intros NK. assert (exists r, report_model q a = Some r) as (r & HR).
  { unfold report_model. subst a. cbn [analysis_of a_kernel]. destruct kernel; [congruence|]. cbn [map]. eexists. reflexivity. }
  destruct (g_full_analysis_dict_eq ports kernel aw lw cw cp dep NK WF ND) as (d & E & _).
  eexists. exists d. split; [|exact E].
  exact (g_combined_view_eq ports repr str_sum osl opl kernel cp dep cw q r HR NP WF HS ND R1 R2).
Qed.

(* Props/C13.v cells_agree for the code: the printed rows and the returned dict pair up; every pressure cell shows the dict
   value (blank only for zero), shown CP / LCD cells are LatencyCP / LatencyLCD *)
Theorem C13gen_cells_agree : forall txt d,
  g_combined_view ports repr str_sum osl opl kernel cp dep (q_ignore_unknown q) true = Ok txt ->
  g_full_analysis_dict ports kernel tt aw lw cw cp dep = Ok d -> wf_analysis a = true ->
  exists r, txt = text_of r /\
  Forall2 (fun w dl =>
             r_num w = d_num dl
             /\ Forall2 cell_shows (r_press w) (d_press dl)
             /\ (forall v, r_cp w = Some v -> f_biteq v (d_lat_cp dl) = true)
             /\ (forall v, r_lcd w = Some v -> v = d_lat_lcd dl)
             /\ (r_lcd w = None -> d_lat_lcd dl = 0%float))
          (rows r) (dd_kernel (ddict_of_py d)).
Proof.
  intros txt d H1 H2 W. destruct (code_outputs txt d H1 H2) as (r & HR & Ht & Hd). exists r. split; [exact Ht|].
  rewrite Hd. exact (cells_agree_proof q a r HR W).
Qed.

(* Props/C13.v summary_is_totals for the code *)
Theorem C13gen_summary_is_totals : forall txt d,
  g_combined_view ports repr str_sum osl opl kernel cp dep (q_ignore_unknown q) true = Ok txt ->
  g_full_analysis_dict ports kernel tt aw lw cw cp dep = Ok d ->
  exists r, txt = text_of r /\ forall s, summary r = Some s ->
  let dd := ddict_of_py d in
  (wf_analysis a = true -> Forall2 cell_shows (s_press s) (dd_sum_press dd))
  /\ dd_sum_press dd = d_totals (dd_kernel dd)
  /\ s_cp s = dd_cp dd
  /\ (wf_analysis a = true -> s_cp s = f_sum (shown_cp r))
  /\ s_lcd s = dd_lcd dd
  /\ (dep = [] -> s_lcd s = 0%float)
  /\ (forall e, In e (a_lcd a) -> leQ (lcd_lat e) (s_lcd s))
  /\ (dep <> [] -> exists e, In e (a_lcd a) /\ lcd_lat e = s_lcd s).
Proof.
  intros txt d H1 H2. destruct (code_outputs txt d H1 H2) as (r & HR & Ht & Hd). exists r. split; [exact Ht|].
  intros s Hs dd. subst dd. rewrite Hd.
  destruct (summary_is_totals_proof q a r s HR Hs) as (A & B & C & D & E & F & G & H).
  assert (NK : kernel <> []) by (destruct (report_model_some q a r HR) as (NK & _); intros K; apply NK; subst a; rewrite K; reflexivity).
  repeat split; try assumption.
  - intros W. apply A; [exact W|]. exact (tp_sum_length_py ports kernel NK WF).
  - intros K. apply F. subst a. rewrite K. reflexivity.
  - intros K. apply H. subst a. cbn [analysis_of a_lcd]. destruct dep; [congruence|discriminate].
Qed.

(* Props/C13.v totals_iff / warning_count / x_marks_iff_unknown for the code, in terms of the Python flag lists *)
Theorem C13gen_totals_iff_and_count : forall txt d,
  g_combined_view ports repr str_sum osl opl kernel cp dep (q_ignore_unknown q) true = Ok txt ->
  g_full_analysis_dict ports kernel tt aw lw cw cp dep = Ok d ->
  exists r, txt = text_of r
  /\ (summary r <> None <-> (q_ignore_unknown q = true \/ forall x, In x kernel -> py_in_list FLAG_TP_UNKWN (p_flags x) = false))
  /\ (w_missing (warns r) = None <-> summary r <> None)
  /\ (forall n, w_missing (warns r) = Some n ->
        n = List.length (filter (fun x => py_in_list FLAG_TP_UNKWN (p_flags x)) kernel) /\ (0 < n)%nat
        /\ (wf_analysis a = true -> n = List.length (x_rows r)))
  /\ (In "UnknownInstrWarning"%string (pdd_warnings d) <-> exists x, In x kernel /\ py_in_list FLAG_TP_UNKWN (p_flags x) = true)
  /\ Forall2 (fun w dl => r_num w = d_num dl /\ (has_X (r_flags w) = true -> fl_tp_unkwn (d_flags dl) = true)
                          /\ (wf_analysis a = true -> has_X (r_flags w) = fl_tp_unkwn (d_flags dl)))
             (rows r) (dd_kernel (ddict_of_py d)).
Proof.
  intros txt d H1 H2. destruct (code_outputs txt d H1 H2) as (r & HR & Ht & Hd). exists r. split; [exact Ht|].
  pose proof (totals_iff_proof q a r HR) as T. destruct (warning_count_proof q a r HR) as (WC1 & WC2).
  split; [|split; [exact WC2|split; [|split]]].
  - rewrite T. apply or_iff_compat_l. subst a. cbn [analysis_of a_kernel]. split.
    + intros H x Hx. exact (H (aline_of x) (in_map aline_of kernel x Hx)).
    + intros H l Hl. apply in_map_iff in Hl. destruct Hl as (x & <- & Hx). exact (H x Hx).
  - intros n Hn. destruct (WC1 n Hn) as (_ & E & P & _ & X). split; [|split; [exact P|exact X]].
    rewrite E. subst a. cbn [analysis_of a_kernel]. rewrite unknown_lines_of, map_length. reflexivity.
  - assert (NK : kernel <> []) by (destruct (report_model_some q a r HR) as (NK & _); intros K; apply NK; subst a; rewrite K; reflexivity).
    destruct (g_full_analysis_dict_eq ports kernel aw lw cw cp dep NK WF ND) as (d' & E & W & _).
    rewrite E in H2. injection H2 as <-. rewrite W. fold a. subst a. cbn [analysis_of a_kernel]. rewrite unknown_lines_of.
    rewrite !in_app_iff. split.
    + intros [H|[H|[H|H]]].
      * destruct aw; [destruct H as [H|[]]; discriminate H|destruct H].
      * destruct lw; [destruct H as [H|[]]; discriminate H|destruct H].
      * destruct cw; [destruct H as [H|[]]; discriminate H|destruct H].
      * destruct (filter _ kernel) as [|x k] eqn:F; [destruct H|]. exists x.
        assert (In x (filter (fun i => py_in_list "tp_unknown" (p_flags i)) kernel)) as I by (rewrite F; left; reflexivity).
        apply filter_In in I. exact I.
    + intros (x & Hx & U). right. right. right.
      assert (In x (filter (fun i => py_in_list "tp_unknown" (p_flags i)) kernel)) as I by (apply filter_In; split; assumption).
      destruct (filter _ kernel); [destruct I|left; reflexivity].
  - rewrite Hd. exact (x_marks_proof q a r HR).
Qed.

(* Props/C13.v lcd_column_is_longest for the code *)
Theorem C13gen_lcd_column_is_longest : forall txt d,
  g_combined_view ports repr str_sum osl opl kernel cp dep (q_ignore_unknown q) true = Ok txt ->
  g_full_analysis_dict ports kernel tt aw lw cw cp dep = Ok d ->
  exists r, txt = text_of r /\
  match longest_lcd (a_lcd a) with
  | None => forall w, In w (rows r) -> r_lcd w = None
  | Some m => In m (a_lcd a) /\ lcd_lat m = pdd_lcd d /\
              forall w, In w (rows r) -> (r_lcd w <> None <-> In (r_num w) (map fst (lcd_deps m)))
  end.
Proof.
  intros txt d H1 H2. destruct (code_outputs txt d H1 H2) as (r & HR & Ht & Hd). exists r. split; [exact Ht|].
  pose proof (lcd_column_proof q a r HR) as L. destruct (longest_lcd (a_lcd a)); [|exact L].
  destruct L as (A & B & C). split; [exact A|split; [|exact C]]. rewrite B.
  change (pdd_lcd d) with (dd_lcd (ddict_of_py d)). rewrite Hd. reflexivity.
Qed.
End Code.
Print Assumptions C13gen_code_returns.
Print Assumptions C13gen_cells_agree.
Print Assumptions C13gen_summary_is_totals.
Print Assumptions C13gen_totals_iff_and_count.
Print Assumptions C13gen_lcd_column_is_longest.

(* ------------------------------------------------------------------ non-vacuity: a concrete kernel (an instruction, an unknown
   instruction, a label; one CP entry; one LCD) satisfies every hypothesis of Section Code, and the regenerated methods evaluate *)
Definition ex_repr (x : float) : string :=
  if f_biteq x 0x1p-1%float then "0.5" else if f_biteq x 0%float then "0.0" else if f_biteq x 1%float then "1.0"
  else if f_biteq x 4%float then "4.0" else "?".
Definition ex_sum (l : list float) : string := match l with [] => "0" | _ => ex_repr (f_sum l) end.
Definition ex_l1 : pyline := {| p_num := 1; p_press := [0x1p-1; 0x1p-1]%float; p_uops := [(1%float, ["0"; "1"])]; p_flags := [];
  p_mnemonic := true; p_comment := false; p_line := "  vaddpd %ymm1, %ymm2, %ymm3 "; p_latency := 4; p_lat_cp := 4; p_lat_lcd := 0; p_tp := 0x1p-1 |}.
Definition ex_l2 : pyline := {| p_num := 2; p_press := [0; 0]%float; p_uops := []; p_flags := ["tp_unknown"; "lt_unknown"];
  p_mnemonic := true; p_comment := false; p_line := "foo %ymm3"; p_latency := 0; p_lat_cp := 0; p_lat_lcd := 0; p_tp := 0 |}.
Definition ex_l3 : pyline := {| p_num := 3; p_press := [0; 0]%float; p_uops := []; p_flags := [];
  p_mnemonic := false; p_comment := false; p_line := ".L1:"; p_latency := 0; p_lat_cp := 0; p_lat_lcd := 0; p_tp := 0 |}.
Definition ex_ports := ["0"; "1"].
Definition ex_k := [ex_l1; ex_l2; ex_l3].
Definition ex_dep := [("1", {| pl_root := ex_l1; pl_deps := [(ex_l1, 1%float)]; pl_latency := 1%float |})].
Definition ex_osl (a b : string) := [b; a].
Definition ex_opl (l : list Z) (s : string) := "  0  -  1   |".

Example C13gen_nonvacuous :
  ex_ports <> [] /\ wf_lines ex_ports ex_k /\ List.length (ex_osl "|" " ") = List.length ex_ports /\ NoDup (map fst ex_dep)
  /\ (forall x v, In x ex_k -> In v (p_press x) -> repr_ok ex_repr v)
  /\ (forall v, In v (tp_sum (a_kernel (analysis_of ex_ports ex_k [ex_l1] ex_dep false))) -> repr_ok ex_repr v)
  /\ wf_analysis (analysis_of ex_ports ex_k [ex_l1] ex_dep false) = true
  /\ (exists t, g_combined_view ex_ports ex_repr ex_sum ex_osl ex_opl ex_k [ex_l1] ex_dep true true = Ok t
                /\ py_substr "   1 | 0.50   0.50 ||  4.0 |  1.0 |   vaddpd" t = true
                /\ py_substr "   2 |             ||      |      | X foo" t = true
                /\ py_substr "       0.50   0.50     4.0    1.0  " t = true)
  /\ (exists t, g_combined_view ex_ports ex_repr ex_sum ex_osl ex_opl ex_k [ex_l1] ex_dep false true = Ok t
                /\ py_substr "The performance data for 1 instructions is missing." t = true)
  /\ (exists d, g_full_analysis_dict ex_ports ex_k tt true false false [ex_l1] ex_dep = Ok d
                /\ pdd_warnings d = ["ArchWarning"; "UnknownInstrWarning"] /\ f_biteq (pdd_lcd d) 1%float = true
                /\ map pd_lat_lcd (pdd_kernel d) = [1; 0; 0]%float).
Proof.
  split; [discriminate|]. split.
  { intros x [<-|[<-|[<-|[]]]]; reflexivity. }
  split; [reflexivity|]. split; [repeat constructor; intros []|]. split.
  { intros x v [<-|[<-|[<-|[]]]] Hv; cbn in Hv; destruct Hv as [<-|[<-|[]]]; vm_compute; reflexivity. }
  split.
  { intros v Hv. vm_compute in Hv. destruct Hv as [<-|[<-|[]]]; vm_compute; reflexivity. }
  split; [vm_compute; reflexivity|].
  split; [eexists; split; [vm_compute; reflexivity|]; vm_compute; repeat split|].
  split; [eexists; split; [vm_compute; reflexivity|]; vm_compute; repeat split|].
  eexists; split; [vm_compute; reflexivity|]; vm_compute; repeat split.
Qed.
