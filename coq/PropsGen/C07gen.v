(* C07 -- translation tie (T) for the operand matcher of osaca/semantics/hw_model.py.

   OVC.MatchGen is REGENERATED on every run by tools/gen_c07.py (tools/py2coq_dyn.py) from the current source of
     MachineModel._match_operands, _check_operands, _check_x86_operands, _check_AArch64_operands, _compare_db_entries,
     _is_x86_reg_type, _is_AArch64_reg_type, _is_x86_mem_type, _is_AArch64_mem_type, get_instruction,
     ParserX86ATT.is_vector_register, and the __eq__ methods of the operand classes (table `eqtab`),
   as Gallina functions over the dynamically typed values of Model/PyDyn.v.  This file proves, against that text, that
   every translated function computes exactly what the hand model Model/Match.v computes, on EVERY operand / pattern of
   the hand model's types (embedded by Model/MatchEmbed.v), for both ISAs, exceptions included -- so the theorems of
   Props/C07.v hold for what the code says now; an edit of those Python functions changes OVC.MatchGen and a proof below
   (or the translator) fails.  Compiled by checks/c07.py (not by make): -Q <generated dir> OVC. *)
From Coq Require Import String Ascii List Bool Arith ZArith NArith Lia.
From OV Require Import Model.PyString Model.PyDyn Model.Match Model.MatchSpec Model.MatchEmbed.
From OV Require Import Proofs.PyDyn Proofs.Match Proofs.MatchSpec Proofs.MatchEmbed.
From OVC Require Import MatchGen.
Import ListNotations.
Open Scope string_scope.

(* ---------------------------------------------------------------- tactics
   `crunch` evaluates translated code on an embedding whose constructors are known; comparisons of DATA strings /
   numbers / identities stay symbolic and `finish` case-splits on them (both sides contain the same tests). *)
Ltac crunch := cbv -[String.eqb py_lower py_upper py_rstrip_digits py_substr String.append Z.eqb N.eqb
                      e_extra e_oid e_dict e_some e_fcls].
Ltac crunch_keep := cbv -[String.eqb py_lower py_upper py_rstrip_digits py_substr String.append Z.eqb N.eqb
                           e_extra e_oid e_dict e_some e_fcls
                           g_is_x86_reg_type g_is_AArch64_reg_type embed_mreg embed_optreg embed_reg].
Ltac crunch_top := cbv -[String.eqb py_lower py_upper py_rstrip_digits py_substr String.append Z.eqb N.eqb
                          e_extra e_oid e_dict e_some e_fcls
                          g_is_x86_reg_type g_is_AArch64_reg_type g_is_x86_mem_type g_is_AArch64_mem_type
                          embed_mreg embed_optreg embed_reg embed_mempat embed_memop].
Ltac crunch_disp := cbv -[String.eqb py_lower py_upper py_rstrip_digits py_substr String.append Z.eqb N.eqb
                           e_extra e_oid e_dict e_some e_fcls
                           g_check_x86_operands g_check_AArch64_operands embed_pattern check_x86 check_a64].
Ltac split1 :=
  match goal with
  | |- context [String.eqb ?a ?b] => destruct (String.eqb a b) eqn:?
  | |- context [Z.eqb ?a ?b] => destruct (Z.eqb a b) eqn:?
  | |- context [N.eqb ?a ?b] => destruct (N.eqb a b) eqn:?
  | |- context [py_substr ?a ?b] => destruct (py_substr a b) eqn:?
  | |- context [match ?x with _ => _ end] => is_var x; destruct x
  end; cbv beta iota.
Ltac finish := repeat (try reflexivity; split1); try reflexivity.
Ltac leaf := apply tvl_lift; crunch; finish.
Ltac leafb := apply tvl_bool; crunch; finish.
Ltac foreign eo :=
  cbn [embed_operand];
  rewrite ?(isinst_foreign eo) by (assumption || (cbn [In known_classes]; tauto));
  crunch.

(* ---------------------------------------------------------------- the predicates on registers *)
Lemma is_vector_register_ok : forall self e ix r,
  x86p_is_vector_register self (embed_optreg e ix r)
  = Ok (PBool (match r with None => false | Some x => x86_is_vector_register x end)).
Proof. intros self e ix [[[n|] p sh l]|]; crunch; finish. Qed.

Lemma is_x86_reg_type_ok : forall self ep eo ix ix' i r,
  g_is_x86_reg_type self (embed_mreg ep ix i) (embed_optreg eo ix' r) = lift (is_x86_reg_type i r).
Proof.
  intros self ep eo ix ix' i r.
  destruct i as [|s|[n p sh l]]; destruct r as [[n' p' sh' l']|]; try destruct n; try destruct n'; crunch.
  all: finish.
Qed.

Lemma is_a64_reg_type_ok : forall self ep eo ix ix' i r,
  g_is_AArch64_reg_type self (embed_reg ep ix i) (embed_reg eo ix' r) = Ok (PBool (is_a64_reg_type i r)).
Proof.
  intros self ep eo ix ix' [n p sh l] [n' p' sh' l'].
  destruct p, p', sh, sh', l, l'; crunch.
  all: finish.
Qed.

(* ---------------------------------------------------------------- the predicates on memory operands: one conjunct at a time *)
Lemma is_x86_mem_type_ok : forall self ep eo i m,
  g_is_x86_mem_type self (embed_mempat ep i) (embed_memop eo m) = lift (is_x86_mem_type i m).
Proof.
  intros self ep eo [b o x sc pre post] [b' o' x' sc' pre' post'].
  unfold g_is_x86_mem_type, is_x86_mem_type.
  apply tvl_final.
  apply tvl_and; [ | apply tvl_and; [ | apply tvl_and ] ].
  - (* base *)
    apply tvl_or; [ | apply tvl_or ].
    + destruct b, b'; leaf.
    + destruct b; leaf.
    + apply tvl_lift. crunch_keep. apply is_x86_reg_type_ok.
  - (* offset *)
    destruct o' as [|[| | |]|], o; leaf.
  - (* index *)
    apply tvl_or; [ | apply tvl_or ].
    + destruct x' as [[n1 p1 s1 l1]|], x as [| |[n2 p2 s2 l2]]; try destruct n1, p1, s1, l1; try destruct n2, p2, s2, l2; leaf.
    + destruct x; leaf.
    + destruct x' as [r|].
      * apply tvl_lift. crunch_keep. apply (is_x86_reg_type_ok self ep eo true true x (Some r)).
      * leaf.
  - (* scale *)
    destruct sc; leaf.
Qed.

Lemma is_a64_mem_type_ok : forall self ep eo i m,
  g_is_AArch64_mem_type self (embed_mempat ep i) (embed_memop eo m) = Ok (PBool (is_a64_mem_type i m)).
Proof.
  intros self ep eo [b o x sc pre post] [b' o' x' sc' pre' post'].
  unfold g_is_AArch64_mem_type, is_a64_mem_type.
  rewrite <- !andb_assoc.
  match goal with |- _ = Ok (PBool ?X) => change (Ok (PBool X)) with (lift (Some X)) end.
  apply tvl_final.
  repeat (apply tvl_and_b; [ | ]).
  - (* base *)
    rewrite <- !orb_assoc. repeat (apply tvl_or_b; [ | ]).
    + destruct b, b'; leafb.
    + destruct b; leafb.
    + destruct b' as [[n1 p1 s1 l1]|], b as [| |[n2 p2 s2 l2]]; try destruct p1; try destruct n2, p2, s2, l2; leafb.
  - (* offset *)
    destruct o' as [|[| | |]|], o; leafb.
  - (* index *)
    rewrite <- !orb_assoc. repeat (apply tvl_or_b; [ | ]).
    + destruct x' as [[n1 p1 s1 l1]|], x as [| |[n2 p2 s2 l2]]; try destruct n1, p1, s1, l1; try destruct n2, p2, s2, l2; leafb.
    + destruct x; leafb.
    + destruct x' as [[n1 p1 s1 l1]|], x as [| |[n2 p2 s2 l2]]; try destruct p1; try destruct n2, p2, s2, l2; leafb.
  - (* scale *)
    destruct sc; leafb.
  - (* pre-indexing *)
    destruct pre, pre'; leafb.
  - (* post-indexing: the last disjunct is the VALUE of i_mem.post_indexed, only its truth matters *)
    rewrite <- !orb_assoc. repeat (apply tvl_or_b; [ | ]).
    + destruct post; leafb.
    + destruct post as [[|]|s], post'; leafb.
    + destruct post' ; try (destruct post; leafb; fail).
      destruct post as [bb|s]; [leafb|].
      cbv [tvl]. eexists. split; [crunch; reflexivity|]. destruct s; reflexivity.
Qed.

(* ---------------------------------------------------------------- _check_x86_operands / _check_AArch64_operands *)
Lemma check_x86_ok : forall self ep eo p o, wf_env eo -> o <> OWild ->
  g_check_x86_operands self (embed_pattern ep p) (embed_operand eo o) = lift (check_x86 p o).
Proof.
  intros self ep eo p o Hwf Hnw.
  destruct o as [r|m|ty v h| |cc| | |k|]; try congruence.
  - destruct p as [r0| | | | | | |]; [ crunch_top; apply (is_x86_reg_type_ok self ep eo false false (MReg r0) (Some r)) | .. ]; crunch; finish.
  - destruct p; [ | crunch_top; apply is_x86_mem_type_ok | .. ]; crunch; finish.
  - destruct p as [| |[t|]| | | | |]; crunch; finish.
  - destruct p; crunch; finish.
  - destruct p; crunch; finish.
  - destruct p; crunch; finish.
  - destruct p; crunch; finish.
  - unfold g_check_x86_operands; destruct p; foreign eo; finish.
Qed.

Lemma check_a64_ok : forall self ep eo p o, wf_env eo -> o <> OWild ->
  g_check_AArch64_operands self (embed_pattern ep p) (embed_operand eo o) = Ok (PBool (check_a64 p o)).
Proof.
  intros self ep eo p o Hwf Hnw.
  destruct o as [r|m|ty v h| |cc| | |k|]; try congruence.
  - destruct p; [ crunch_top; apply is_a64_reg_type_ok | .. ]; crunch; finish.
  - destruct p; [ | crunch_top; apply is_a64_mem_type_ok | .. ]; crunch; finish.
  - pose proof Hwf as [Hs _].
    destruct p as [| |[t|]| | | | |]; crunch; finish; destruct (e_some eo); try congruence; reflexivity.
  - destruct p as [| |[t|]| | | | |]; crunch; finish.
  - destruct p as [| |[t|]| | | | |]; crunch; finish.
  - destruct p as [| |[t|]| | | | |]; crunch; finish.
  - destruct p as [| |[t|]| | | | |]; crunch; finish.
  - unfold g_check_AArch64_operands; destruct p as [| |[t|]| | | | |]; foreign eo; finish.
Qed.

(* ---------------------------------------------------------------- _check_operands: wildcard, ISA dispatch *)
Lemma check_operands_ok : forall a s forms more rest ep eo p o,
  isa_text_ok a s -> wf_env eo -> dict_ok o ->
  g_check_operands (mk_self s forms more rest) (embed_pattern ep p) (embed_operand eo o) = lift (check_operand a p o).
Proof.
  intros a s forms more rest ep eo p o Hs Hwf Hd. unfold isa_text_ok in Hs.
  destruct o as [r|m|ty v h| |cc| | |k|].
  7: { (* the wildcard dict *) destruct p; crunch; rewrite ?String.eqb_refl; reflexivity. }
  all: assert (Hfor : py_isinstance (embed_operand eo OOther) ["dict"] = PBool false)
         by (apply isinst_foreign; [assumption | cbn [In known_classes]; tauto]).
  all: cbn [embed_operand] in *; unfold g_check_operands.
  8: rewrite Hfor.
  all: crunch_disp; try (cbn [dict_ok] in Hd; rewrite Hd; cbv beta iota); rewrite !Hs; destruct a.
  all: change (String.eqb "x86" "aarch64") with false; change (String.eqb "x86" "x86") with true;
       change (String.eqb "aarch64" "aarch64") with true; cbv beta iota.
  all: match goal with
       | |- _ = match check_x86 ?pp ?o with _ => _ end => exact (check_x86_ok _ ep eo pp o Hwf ltac:(discriminate))
       | |- _ = Ok (PBool (check_a64 ?pp ?o)) => exact (check_a64_ok _ ep eo pp o Hwf ltac:(discriminate))
       end.
Qed.

(* ---------------------------------------------------------------- _match_operands: the loop of the translated text *)
Lemma match_operands_ok : forall a s forms more rest ep eo pats ops,
  isa_text_ok a s -> wf_env eo -> Forall dict_ok ops ->
  g_match_operands (mk_self s forms more rest) (embed_pats ep pats) (embed_ops eo ops) = lift (match_operands a pats ops).
Proof.
  intros a s forms more rest ep eo pats ops Hs Hwf Hd.
  unfold g_match_operands, match_operands.
  cbn [py_len embed_pats embed_ops bind].
  rewrite len_eqb_embed.
  destruct (Nat.eqb_spec (length ops) (length pats)) as [E|E]; cbn [negb py_truth]; [|reflexivity].
  unfold embed_ops, py_enumerate. cbn [py_iter bind].
  change 0%Z with (Z.of_nat (length (@nil pattern))).
  erewrite (loop_ok a eo _ pats) with (pre := []) (pats := pats) (ok := true); [ | | reflexivity | symmetry; exact E | exact Hd ].
  - destruct (match_all a pats ops) as [[|]|]; reflexivity.
  - (* the loop body of the translated text does what the hand model's step does *)
    intros k p o ok Hn Hdo. cbv beta iota. cbn [py_unpack2 bind].
    fold (embed_pats ep pats). rewrite (nth_embed_pats ep pats k p Hn). cbn [bind].
    unfold py_and. cbn [bind py_truth].
    destruct ok; [|reflexivity].
    rewrite (check_operands_ok a s forms more rest ep eo p o Hs Hwf Hdo).
    destruct (check_operand a p o) as [[|]|]; reflexivity.
Qed.

(* ---------------------------------------------------------------- get_instruction: first match under name.upper() *)
Lemma get_instruction_ok : forall a s d more rest ep eo tbl name ops,
  isa_text_ok a s -> wf_env eo -> Forall dict_ok ops -> represents ep d tbl ->
  g_get_instruction (mk_self s (PDict d) more rest) (ostr name) (embed_ops eo ops)
  = lookup_res ep tbl (get_instruction a tbl name ops).
Proof.
  intros a s d more rest ep eo tbl name ops Hs Hwf Hd Hrep.
  destruct name as [n|]; [|reflexivity].
  unfold g_get_instruction, get_instruction. cbn [ostr py_is_none py_truth].
  unfold mk_self at 1.
  cbn [py_getattr assoc key_eqb Ascii.eqb Bool.eqb bind py_getitem_lit app py_upper_m py_str_method py_dict_get].
  rewrite (Hrep (py_upper n)). cbn [bind py_iter].
  match goal with |- context [py_first _ ?c] =>
    assert (Hc : forall e, c (embed_form ep e) = lift (match_operands a (e_pats e) ops)) end.
  { intro e. cbv beta. cbn [embed_form py_getattr assoc key_eqb Ascii.eqb Bool.eqb bind].
    apply match_operands_ok; assumption. }
  rewrite (first_ok a ep ops (py_upper n) _ Hc tbl []).
  cbn [app length]. destruct (find_first a tbl (py_upper n) ops 0); reflexivity.
Qed.

(* ================================================================ property-level theorems *)
(* ---- (T) each translated function IS the hand model's function, on every value of the model's types *)
Theorem C07gen_is_vector_register_is_model : forall self e ix r,
  x86p_is_vector_register self (embed_optreg e ix r)
  = Ok (PBool (match r with None => false | Some x => x86_is_vector_register x end)).
Proof. exact is_vector_register_ok. Qed.
Print Assumptions C07gen_is_vector_register_is_model.

Theorem C07gen_is_x86_reg_type_is_model : forall self ep eo ix ix' i r,
  g_is_x86_reg_type self (embed_mreg ep ix i) (embed_optreg eo ix' r) = lift (is_x86_reg_type i r).
Proof. exact is_x86_reg_type_ok. Qed.
Print Assumptions C07gen_is_x86_reg_type_is_model.

Theorem C07gen_is_AArch64_reg_type_is_model : forall self ep eo ix ix' i r,
  g_is_AArch64_reg_type self (embed_reg ep ix i) (embed_reg eo ix' r) = Ok (PBool (is_a64_reg_type i r)).
Proof. exact is_a64_reg_type_ok. Qed.
Print Assumptions C07gen_is_AArch64_reg_type_is_model.

Theorem C07gen_is_x86_mem_type_is_model : forall self ep eo i m,
  g_is_x86_mem_type self (embed_mempat ep i) (embed_memop eo m) = lift (is_x86_mem_type i m).
Proof. exact is_x86_mem_type_ok. Qed.
Print Assumptions C07gen_is_x86_mem_type_is_model.

Theorem C07gen_is_AArch64_mem_type_is_model : forall self ep eo i m,
  g_is_AArch64_mem_type self (embed_mempat ep i) (embed_memop eo m) = Ok (PBool (is_a64_mem_type i m)).
Proof. exact is_a64_mem_type_ok. Qed.
Print Assumptions C07gen_is_AArch64_mem_type_is_model.

Theorem C07gen_check_x86_operands_is_model : forall self ep eo p o, wf_env eo -> o <> OWild ->
  g_check_x86_operands self (embed_pattern ep p) (embed_operand eo o) = lift (check_x86 p o).
Proof. exact check_x86_ok. Qed.
Print Assumptions C07gen_check_x86_operands_is_model.

Theorem C07gen_check_AArch64_operands_is_model : forall self ep eo p o, wf_env eo -> o <> OWild ->
  g_check_AArch64_operands self (embed_pattern ep p) (embed_operand eo o) = Ok (PBool (check_a64 p o)).
Proof. exact check_a64_ok. Qed.
Print Assumptions C07gen_check_AArch64_operands_is_model.

(* for both ISAs: whatever spelling of the ISA name the model file uses (s.lower() decides) *)
Theorem C07gen_check_operands_is_model : forall a s forms more rest ep eo p o,
  isa_text_ok a s -> wf_env eo -> dict_ok o ->
  g_check_operands (mk_self s forms more rest) (embed_pattern ep p) (embed_operand eo o) = lift (check_operand a p o).
Proof. exact check_operands_ok. Qed.
Print Assumptions C07gen_check_operands_is_model.

Theorem C07gen_match_operands_is_model : forall a s forms more rest ep eo pats ops,
  isa_text_ok a s -> wf_env eo -> Forall dict_ok ops ->
  g_match_operands (mk_self s forms more rest) (embed_pats ep pats) (embed_ops eo ops) = lift (match_operands a pats ops).
Proof. exact match_operands_ok. Qed.
Print Assumptions C07gen_match_operands_is_model.

(* the object returned is the InstructionForm at the position the model computes; None for "not found"; the
   AttributeError of the model's `Raised` *)
Theorem C07gen_get_instruction_is_model : forall a s d more rest ep eo tbl name ops,
  isa_text_ok a s -> wf_env eo -> Forall dict_ok ops -> represents ep d tbl ->
  g_get_instruction (mk_self s (PDict d) more rest) (ostr name) (embed_ops eo ops)
  = lookup_res ep tbl (get_instruction a tbl name ops).
Proof. exact get_instruction_ok. Qed.
Print Assumptions C07gen_get_instruction_is_model.

(* ---- the theorems of Props/C07.v, restated for the translated code *)
Lemma all_wf_dict_ok : forall a ops, Forall (fun o => wf_operand a o = true) ops -> Forall dict_ok ops.
Proof. intros a ops H. eapply Forall_impl; [|exact H]. intros o Ho. exact (wf_operand_dict_ok a o Ho). Qed.

(* operand level: on the documented vocabulary, outside the two lenient families, the translated _check_operands
   answers exactly `admits` of the operand's kind (and never raises) *)
Theorem C07gen_check_iff_admits_partial : forall a s forms more rest ep eo p o,
  isa_text_ok a s -> wf_env eo ->
  wf_pattern a p = true -> wf_operand a o = true -> lenient a p o = false ->
  g_check_operands (mk_self s forms more rest) (embed_pattern ep p) (embed_operand eo o)
  = Ok (PBool (admits a p (kind a o))).
Proof.
  intros a s forms more rest ep eo p o Hs Hwf Hp Ho Hl.
  rewrite (check_operands_ok a s forms more rest ep eo p o Hs Hwf (wf_operand_dict_ok a o Ho)).
  rewrite (Proofs.MatchSpec.check_iff_admits_partial a p o Hp Ho Hl). reflexivity.
Qed.
Print Assumptions C07gen_check_iff_admits_partial.

(* an entry is never applied to an instruction with a different operand count *)
Theorem C07gen_count_mismatch_rejected : forall a s forms more rest ep eo pats ops,
  isa_text_ok a s -> wf_env eo -> Forall dict_ok ops -> length ops <> length pats ->
  g_match_operands (mk_self s forms more rest) (embed_pats ep pats) (embed_ops eo ops) = Ok (PBool false).
Proof.
  intros a s forms more rest ep eo pats ops Hs Hwf Hd Hlen.
  rewrite (match_operands_ok a s forms more rest ep eo pats ops Hs Hwf Hd).
  rewrite (match_operands_count a pats ops Hlen). reflexivity.
Qed.
Print Assumptions C07gen_count_mismatch_rejected.

(* sound + first: an object returned by the translated get_instruction is the form of an entry stored under
   name.upper() with the instruction's operand count that the matcher accepts operand by operand, and no earlier
   entry of that name is accepted *)
Theorem C07gen_get_instruction_sound_first : forall a s d more rest ep eo tbl n ops f,
  isa_text_ok a s -> wf_env eo -> Forall dict_ok ops -> represents ep d tbl ->
  g_get_instruction (mk_self s (PDict d) more rest) (PStr n) (embed_ops eo ops) = Ok f -> f <> PNone ->
  exists j e, nth_error tbl j = Some e /\ f = embed_form ep e
    /\ e_name e = py_upper n
    /\ length ops = length (e_pats e)
    /\ Forall2 (fun p o => check_operand a p o = Some true) (e_pats e) ops
    /\ (forall k e', k < j -> nth_error tbl k = Some e' -> e_name e' = py_upper n ->
                     match_operands a (e_pats e') ops = Some false).
Proof.
  intros a s d more rest ep eo tbl n ops f Hs Hwf Hd Hrep Hg Hf.
  change (PStr n) with (ostr (Some n)) in Hg.
  rewrite (get_instruction_ok a s d more rest ep eo tbl (Some n) ops Hs Hwf Hd Hrep) in Hg.
  destruct (get_instruction a tbl (Some n) ops) as [j| |] eqn:Eg; cbn [lookup_res] in Hg; try discriminate.
  - destruct (get_instruction_found _ _ _ _ _ Eg) as (e & Hn & [Hname Hm] & Hfirst).
    exists j, e. injection Hg as <-.
    rewrite (nth_error_nth _ _ dflt_entry Hn).
    apply match_operands_true_iff in Hm. destruct Hm as [Hlen Hall].
    repeat split; auto.
    all: try (intros k e' Hlt Hk Hnm; exact (Hfirst k e' Hlt Hk Hnm)).
  - injection Hg as <-. contradiction.
Qed.
Print Assumptions C07gen_get_instruction_sound_first.

(* complete: if some entry stored under name.upper() is accepted, the translated get_instruction returns a form
   object -- never None, never an exception -- for operands as the parsers deliver them *)
Theorem C07gen_get_instruction_complete : forall a s d more rest ep eo tbl n ops,
  isa_text_ok a s -> wf_env eo -> represents ep d tbl ->
  Forall (fun o => wf_operand a o = true) ops ->
  (exists e, In e tbl /\ e_name e = py_upper n /\ match_operands a (e_pats e) ops = Some true) ->
  exists j e, nth_error tbl j = Some e
    /\ g_get_instruction (mk_self s (PDict d) more rest) (PStr n) (embed_ops eo ops) = Ok (embed_form ep e).
Proof.
  intros a s d more rest ep eo tbl n ops Hs Hwf Hrep Hw (e0 & Hin & Hname & Hm).
  change (PStr n) with (ostr (Some n)).
  rewrite (get_instruction_ok a s d more rest ep eo tbl (Some n) ops Hs Hwf (all_wf_dict_ok a ops Hw) Hrep).
  destruct (find_first_complete a (py_upper n) ops tbl 0) as (j & Hj).
  - intros e _. apply match_operands_total. intros p o Hino. apply check_total.
    rewrite Forall_forall in Hw. auto.
  - exists e0. split; [assumption|]. split; assumption.
  - unfold get_instruction. rewrite Hj. cbn [lookup_res].
    destruct (find_first_found _ _ _ _ _ _ Hj) as (k & e & -> & Hn & _).
    exists k, e. split; [assumption|]. simpl. rewrite (nth_error_nth _ _ dflt_entry Hn). reflexivity.
Qed.
Print Assumptions C07gen_get_instruction_complete.

(* own pattern: an instruction whose operand kinds an entry of the documented vocabulary admits is never reported as
   unknown by the translated get_instruction (that entry or an earlier one of the name is returned) *)
Theorem C07gen_own_pattern_matches : forall a s d more rest ep eo tbl n ops e,
  isa_text_ok a s -> wf_env eo -> represents ep d tbl ->
  In e tbl -> e_name e = py_upper n ->
  Forall (fun p => wf_pattern a p = true) (e_pats e) -> Forall (fun o => wf_operand a o = true) ops ->
  Forall2 (fun p o => admits a p (kind a o) = true) (e_pats e) ops ->
  exists j e', nth_error tbl j = Some e'
    /\ g_get_instruction (mk_self s (PDict d) more rest) (PStr n) (embed_ops eo ops) = Ok (embed_form ep e').
Proof.
  intros a s d more rest ep eo tbl n ops e Hs Hwf Hrep Hin Hname Hwp Hwo Had.
  apply (C07gen_get_instruction_complete a s d more rest ep eo tbl n ops Hs Hwf Hrep Hwo).
  exists e. split; [assumption|]. split; [assumption|].
  apply match_operands_true_iff. split.
  - symmetry. eapply Forall2_length'. exact Had.
  - apply forall2_admits_check; assumption.
Qed.
Print Assumptions C07gen_own_pattern_matches.

(* ---- non-vacuity: the hypotheses are satisfiable and the translated code really evaluates *)
Definition env0 : env := Env 7 (fun _ => [("source", PBool false); ("destination", PBool false)]) [("value", PInt 8)] (PStr "x") "FlagOperand".
Definition env1 : env := Env 9 (fun _ => []) [] (PDict []) "LabelOperand".
Definition demo_tbl : list entry := [
  E "VADDPD" [PReg (R (Some "xmm") None None None); PReg (R (Some "xmm") None None None)];
  E "ADD" [PImm (Some "int"); PReg (R (Some "gpr") None None None)];
  E "ADD" [PReg (R (Some "*") None None None); PReg (R (Some "gpr") None None None)];
  E "KMOVW" [PReg (R (Some "gpr") None None None); PReg (R (Some "k") None None None)]].
Definition demo_dict : list (string * pyval) :=
  [("VADDPD", PList (forms_under env1 demo_tbl "VADDPD")); ("ADD", PList (forms_under env1 demo_tbl "ADD"));
   ("KMOVW", PList (forms_under env1 demo_tbl "KMOVW"))].
Definition demo_self := mk_self "x86" (PDict demo_dict) [] [].
Definition rax := OReg (R (Some "rax") None None None).
Definition k1 := OReg (R (Some "k1") None None None).

Example C07gen_nonvacuous :
  wf_env env0 /\ wf_env env1 /\ isa_text_ok X86 "x86" /\ isa_text_ok A64 "AArch64"
  /\ g_get_instruction demo_self (PStr "add") (embed_ops env0 [rax; rax]) = Ok (embed_form env1 (nth 2 demo_tbl dflt_entry))
  /\ g_get_instruction demo_self (PStr "add") (embed_ops env0 [rax]) = Ok PNone
  /\ g_get_instruction demo_self PNone (embed_ops env0 [rax]) = Ok PNone
  (* the x86 known finding: a gpr pattern is applied to a mask register *)
  /\ g_get_instruction demo_self (PStr "kmovw") (embed_ops env0 [k1; k1]) = Ok (embed_form env1 (nth 3 demo_tbl dflt_entry))
  (* the only exception of the vocabulary: a nameless register *)
  /\ g_check_operands demo_self (embed_pattern env1 (PReg (R (Some "gpr") None None None)))
                      (embed_operand env0 (OReg (R None None None None))) = Raise AttributeError
  (* AArch64: post-indexed by a dict matches a truthy string *)
  /\ g_is_AArch64_mem_type (mk_self "aarch64" PNone [] [])
       (embed_mempat env1 (MP (MStr "x") FNone MNone (SInt 1) (GBool false) (GStr "yes")))
       (embed_memop env0 (M (Some (R (Some "1") (Some "x") None None)) ONone None 1 false PostDict)) = Ok (PBool true).
Proof.
  repeat split; try (intro H; discriminate H); try reflexivity.
Qed.

Example C07gen_represents_satisfiable : represents env1 demo_dict demo_tbl.
Proof.
  intro key. unfold demo_dict. cbn [dict_find].
  destruct (String.eqb_spec key "VADDPD") as [->|N1]; [reflexivity|].
  destruct (String.eqb_spec key "ADD") as [->|N2]; [reflexivity|].
  destruct (String.eqb_spec key "KMOVW") as [->|N3]; [reflexivity|].
  unfold forms_under, demo_tbl. cbn [filter e_name].
  rewrite !(proj2 (String.eqb_neq _ _)) by (intro; subst; congruence). reflexivity.
Qed.
