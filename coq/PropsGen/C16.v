(* Property C16 -- the LCD result is independent of process scheduling and worker count.
   partition / workload / start_of / end_of are REGENERATED from kernel_dg.py on every run
   (Gen/Partition.v, tools/gen_c16.py); post, pyslice, Interleave are Model/Parallel.v. *)
From Coq Require Import ZArith List Bool Permutation Lia.
From OV Require Import Model.Parallel Proofs.Parallel Gen.Partition.
Import ListNotations.
Open Scope Z_scope.

Lemma workload_facts (n W : nat) : (1 <= W)%nat ->
  0 <= workload (Z.of_nat n) (Z.of_nat W) /\
  Z.of_nat n <= Z.of_nat W * workload (Z.of_nat n) (Z.of_nat W).
Proof.
  intros HW. unfold workload.
  destruct n as [|n].
  - change (Z.of_nat 0 - 1) with (- (1)). rewrite Z.quot_opp_l by lia.
    rewrite Z.quot_div_nonneg by lia.
    assert (0 <= 1 / Z.of_nat W) by (apply Z.div_pos; lia).
    assert (1 / Z.of_nat W <= 1) by (apply Z.div_le_upper_bound; lia).
    split; [lia|]. simpl Z.of_nat at 1. nia.
  - rewrite Z.quot_div_nonneg by lia.
    assert (0 <= (Z.of_nat (S n) - 1) / Z.of_nat W) by (apply Z.div_pos; lia).
    split; [lia|].
    pose proof (Z.mul_succ_div_gt (Z.of_nat (S n) - 1) (Z.of_nat W) ltac:(lia)). lia.
Qed.

Lemma partition_covers_lemma (A : Type) (k : list A) (W : nat) :
  (1 <= W)%nat -> concat (map (pyslice k) (partition W (length k))) = k.
Proof.
  intros HW. destruct (workload_facts (length k) W HW) as [H0 H1].
  unfold partition. cbv zeta. rewrite map_map.
  set (w := workload (Z.of_nat (length k)) (Z.of_nat W)) in *.
  transitivity (concat (map (fun t => pyslice k (Z.of_nat (t * Z.to_nat w),
                   Z.min (Z.of_nat ((t + 1) * Z.to_nat w)) (Z.of_nat (length k)))) (seq 0 W))).
  - f_equal. apply map_ext. intros t. unfold start_of, end_of.
    (* robust against an explicit or implicit clamp of the upper bound *)
    rewrite pyslice_clamp_end by nia.
    rewrite (pyslice_clamp_end k _ (Z.min _ _)) by nia.
    rewrite !Nat2Z.inj_mul, !Z2Nat.id by lia. f_equal. f_equal; lia.
  - apply chunks_cover. nia.
Qed.

(* ---------------------------------------------------------------- property theorems *)

(* no instruction dropped, none handed to two workers, for every kernel and worker count *)
Theorem partition_covers :
  forall (A : Type) (k : list A) (W : nat),
    (1 <= W)%nat -> concat (map (pyslice k) (partition W (length k))) = k.
Proof. exact partition_covers_lemma. Qed.
Print Assumptions partition_covers.

Theorem partition_no_overlap :
  forall (n W t1 t2 : nat), (1 <= W)%nat -> (t1 < t2)%nat ->
    let klen := Z.of_nat n in let nc := Z.of_nat W in let w := workload klen nc in
    0 <= start_of klen nc w (Z.of_nat t1) /\
    start_of klen nc w (Z.of_nat t1) <= (end_of klen nc w (Z.of_nat t1)) /\
    end_of klen nc w (Z.of_nat t1) <= start_of klen nc w (Z.of_nat t2) \/
    (* or the earlier chunk already lies beyond the end of the kernel: both are empty *)
    Z.of_nat n <= start_of (Z.of_nat n) (Z.of_nat W) (workload (Z.of_nat n) (Z.of_nat W)) (Z.of_nat t1).
Proof.
  intros n W t1 t2 HW Ht. cbv zeta. destruct (workload_facts n W HW) as [H0 H1].
  set (w := workload (Z.of_nat n) (Z.of_nat W)) in *.
  destruct (Z_le_gt_dec (Z.of_nat n) (start_of (Z.of_nat n) (Z.of_nat W) w (Z.of_nat t1))) as [L|G]; [right; exact L|left].
  unfold start_of, end_of in *. repeat split; nia.
Qed.
Print Assumptions partition_no_overlap.

(* the latency sum the model reports for a path is computed FROM the sorted latency path (the code sums lat_path after
   lat_path.sort()), so it is irrelevant which of two duplicates the de-duplication keeps ... *)
Theorem reported_lat_sum_function_of_lat_path :
  forall off p q seen r, lat_path off p = lat_path off q -> dedup off seen (p :: r) = dedup off seen (q :: r).
Proof. intros off p q seen r H. cbn [dedup]. rewrite H. reflexivity. Qed.
Print Assumptions reported_lat_sum_function_of_lat_path.

(* ... and over Z (exact latencies, the setting of this model) it is the sum in path order, what the code computed before *)
Theorem lat_sum_function_of_lat_path :
  forall off p q, lat_path off p = lat_path off q -> lat_sum p = lat_sum q.
Proof.
  intros off p q H. rewrite (lat_sum_path_order off p), (lat_sum_path_order off q), H. reflexivity.
Qed.
Print Assumptions lat_sum_function_of_lat_path.

Theorem post_perm_invariant :
  forall off (l l' : list path), Permutation l l' -> post off l = post off l'.
Proof. exact post_perm. Qed.
Print Assumptions post_perm_invariant.

(* any interleaving of the workers' extend blocks, any worker count: same dict as sequential *)
Theorem parallel_eq_sequential :
  forall off (paths_from : Z -> list path) (k : list Z) (W : nat) (bl : list (list path)),
    (1 <= W)%nat ->
    Interleave (worker_blocks paths_from (partition W (length k)) k) bl ->
    lcd_parallel off bl = lcd_sequential off paths_from k.
Proof.
  intros. apply parallel_eq_sequential_gen with (part := partition W (length k)); auto.
  apply partition_covers_lemma. assumption.
Qed.
Print Assumptions parallel_eq_sequential.

(* ---------------------------------------------------------------- non-vacuity *)
Example partition_16_50_starts :
  map fst (partition 16 50) = [0;4;8;12;16;20;24;28;32;36;40;44;48;52;56;60].
Proof. vm_compute. reflexivity. Qed.
Example more_workers_than_lines : map (pyslice [10; 11; 12]) (partition 5 3) = [[10]; [11]; [12]; []; []].
Proof. vm_compute. reflexivity. Qed.
Example slices_16_50 : map (@length nat) (map (pyslice (seq 0 50)) (partition 16 50)) = [4;4;4;4;4;4;4;4;4;4;4;4;2;0;0;0]%nat.
Proof. vm_compute. reflexivity. Qed.

(* two rotations of one cycle (duplicate), a second cycle with the same lines but another latency
   (key collision: the later = smaller one survives), and a third cycle *)
Definition ex_paths : list path :=
  [ [(1, 4); (2, 1); (1003, 2)]; [(2, 1); (3, 2); (1001, 4)]; [(1, 3); (2, 1); (3, 2)]; [(5, 7)] ].
Example post_example :
  post 1000 ex_paths = Some [ ([5], (5, [(5,7)], 7)); ([1;2;3], (1, [(1,3);(2,1);(3,2)], 6)) ]
  /\ post 1000 (rev ex_paths) = post 1000 ex_paths.
Proof. vm_compute. split; reflexivity. Qed.
Example post_raises_on_empty_path : post 1000 [[(1, 1)]; []] = None.
Proof. reflexivity. Qed.

Example interleave_example :
  Interleave [[1; 2]; [3]; []]%nat [1; 3; 2]%nat.
Proof.
  apply (il_step [] 1%nat [2%nat] [[3%nat]; []]). simpl.
  apply (il_step [[2%nat]] 3%nat [] [[]]). simpl.
  apply (il_step [] 2%nat [] [[]; []]). simpl.
  apply il_done. repeat constructor.
Qed.
