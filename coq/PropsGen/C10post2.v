(* C10 -- translator tie (T), AArch64 INSTRUCTION lines and the full operand / line statements.
   Compiled by the check against the regenerated PostA64Gen.v (logical path OVC) after C10postOps.v, C10post.v (non-list operands,
   label / directive / comment lines), C10postList.v (register lists and ranges) and C10postInstr.v (parse_instruction given the operands).
     C10post_operand     process_operand (gr_wop o) = emb_wop o for EVERY operand of the language, lists and ranges included
     C10post_instr_line  parse_line (gr_stage l) = emb_form (denote l) on instruction lines: the five operand slots in order,
                         append for one object / extend for the objects of a list, mnemonic, comment (" ".join, "" for an empty one)
     C10post_line        the same equation for every line of the language wline_okb fx_all
   The oracle is the validated grammar stage gr_stage; Proofs/PostMembers.v shows that on a line of the language two members of
   register lists that are spelled alike have the same grammar fields (`members_okb`), i.e. gr_stage's list_element, a function of
   the member's text as the real grammar element is, answers correctly for every member. *)
From Coq Require Import String Ascii List Bool ZArith NArith Lia.
From OV Require Import Model.PyString Model.PyDyn Model.PyPost Model.LexA64 Model.ParseA64 Model.SyntaxA64 Model.PostA64.
From OV Require Import Model.PostMembers Proofs.PyDyn Proofs.PyPost Proofs.ParseA64Regs Proofs.PostMembers.
From OVC Require Import PostA64Gen C10postOps C10post C10postList C10postInstr.
Import ListNotations.
Open Scope string_scope.

Arguments g_process_operand : simpl never.
Arguments g_parse_instruction : simpl never.
Arguments gr_wop : simpl never.
Arguments emb_wop : simpl never.
Arguments den_wop : simpl never.
Arguments emb_operand : simpl never.
Arguments words_go : simpl never.
Arguments String.concat : simpl never.
Arguments comment_text : simpl never.

(* ------------------------------------------------------------------ list_element as a function of the member's text *)
Lemma gr_same_wreg : forall a b, gr_same a b = true -> gr_wreg a = gr_wreg b.
Proof.
  intros [c n arr] [c' n' arr'] H. unfold gr_same in H. cbn [w_num w_arr] in H. rewrite !andb_true_iff in H. destruct H as ((P & N) & A).
  apply String.eqb_eq in P. apply Nat.eqb_eq in N. subst n'. unfold gr_wreg, gr_arr. cbn [w_num w_arr]. rewrite P.
  destruct arr as [[l s]|], arr' as [[l' s']|]; cbn in A; try discriminate; [|reflexivity].
  apply andb_true_iff in A. destruct A as [A B]. apply String.eqb_eq in A. apply Ascii.eqb_eq in B. subst. reflexivity.
Qed.

Lemma stage_members : forall mn ops c x, members_okb (WLInstr mn ops c) = true ->
  member_oracle (gr_stage (WLInstr mn ops c) x) (line_members (WLInstr mn ops c)).
Proof.
  intros mn ops c x H e He. unfold members_okb in H. rewrite forallb_forall in H. specialize (H e He). rewrite forallb_forall in H.
  unfold gr_stage. cbn [key_eqb Ascii.eqb Bool.eqb].
  destruct (find (fun e0 => String.eqb (gr_elem_word e0) (gr_elem_word e)) (line_members (WLInstr mn ops c))) as [e'|] eqn:F.
  - apply find_some in F. destruct F as [I W]. specialize (H e' I). rewrite W in H. cbn in H. rewrite (gr_same_wreg _ _ H). reflexivity.
  - exfalso. apply (find_none _ _ F) in He. rewrite String.eqb_refl in He. discriminate.
Qed.

Lemma members_sub : forall ops o, In o ops -> forall e, In e (op_members o) -> In e (flat_map op_members ops).
Proof. intros ops o I e E. apply in_flat_map. exists o. split; assumption. Qed.

(* ------------------------------------------------------------------ every operand *)
Theorem C10post_operand : forall orc o, wop_okb fx_all o = true -> member_oracle orc (op_members o) ->
  g_process_operand orc (gr_wop o) = Ok (emb_wop o).
Proof.
  intros orc o H M. destruct (nolist o) eqn:N.
  - apply C10post_operand_partial; assumption.
  - apply C10post_list; [exact H| |exact M]. destruct o; try discriminate; reflexivity.
Qed.
Print Assumptions C10post_operand.

(* ------------------------------------------------------------------ instruction lines *)
Lemma ops_processed : forall mn ops c x, wline_okb fx_all (WLInstr mn ops c) = true ->
  forall o, In o ops -> g_process_operand (gr_stage (WLInstr mn ops c) x) (gr_wop o) = Ok (emb_wop o).
Proof.
  intros mn ops c x H o I. pose proof (members_ok _ _ H) as M. cbn [wline_okb] in H. rewrite !andb_true_iff in H. destruct H as (_ & _ & _ & F & _).
  rewrite forallb_forall in F. apply C10post_operand; [apply F; exact I|].
  intros e E. apply (stage_members mn ops c x M). cbn [line_members]. eapply members_sub; eassumption.
Qed.

Theorem C10post_instr_line : forall mn ops c x line ln,
  wline_okb fx_all (WLInstr mn ops c) = true ->
  g_parse_line (gr_stage (WLInstr mn ops c) x) line ln = Ok (emb_form (denote (WLInstr mn ops c)) x line ln).
Proof.
  intros mn ops c x line ln H. apply instr_line_gen.
  - repeat split; reflexivity.
  - cbn [wline_okb] in H. rewrite !andb_true_iff in H. destruct H as (_ & _ & L & _). apply Nat.leb_le in L. exact L.
  - apply ops_processed; assumption.
Qed.
Print Assumptions C10post_instr_line.

(* ------------------------------------------------------------------ every line of the language *)
Theorem C10post_line : forall l x line ln,
  wline_okb fx_all l = true -> dirx_ok x = true ->
  g_parse_line (gr_stage l x) line ln = Ok (emb_form (denote l) x line ln).
Proof.
  intros l x line ln H X. destruct l as [mn ops c|n c|n ps c|raw].
  - apply C10post_instr_line; assumption.
  - apply C10post_line_partial; [reflexivity|exact X].
  - apply C10post_line_partial; [reflexivity|exact X].
  - apply C10post_line_partial; [reflexivity|exact X].
Qed.
Print Assumptions C10post_line.

(* non-vacuity: two lists (one a range with an index), a memory operand, a comment; and members_okb is not vacuous *)
Example C10post2_nonvacuous :
  let l := WLInstr "ld4" [WList [mkwreg "v" 0 (Some ("", "s"%char)); mkwreg "V" 1 (Some ("", "S"%char))] (Some "0");
                          WRange (mkwreg "v" 9 (Some ("4", "s"%char))) (mkwreg "v" 10 (Some ("4", "s"%char))) None;
                          WMem (BX false 0) MTNone (MCPost true (mknum false false "64"))] (Some " x") in
  wline_okb fx_all l = true /\ length (p_operands (denote l)) = 5%nat /\
  (exists f ops, g_parse_line (gr_stage l (mkdirx PNone [] None)) (PStr "t") (PInt 3) = Ok (PObj "InstructionForm" 0 f) /\
     assoc "_operands" f = Some (PList ops) /\ length ops = 5%nat /\ assoc "_comment_id" f = Some (PStr "x")).
Proof.
  cbv zeta. split; [reflexivity|]. split; [reflexivity|].
  eexists. eexists. rewrite C10post_line by reflexivity. vm_compute. repeat split.
Qed.
