(* C08 -- translator tie: the Gallina regenerated from the CURRENT source of assign_tp_lt, _handle_instruction_found and the
   hw_model getters (Gen/CostGen.v, tools/gen_c08.py) is the hand model (Model/Costing.v, Model/Rows.v).
   Compiled by the check on every run (harness/c08_tie.py), not by make. *)
From Coq Require Import ZArith List Bool String Ascii Lia.
From OV Require Import Model.PyString Model.Match.
From OV Require Import Model.Num Model.Pressure Model.Costing Model.Rows Model.CostPy.
From OV Require Import Proofs.Costing Proofs.Rows Proofs.CostPy.
From OV Require Gen.PressureGen PropsGen.C01gen.
From OV Require Import Gen.CostGen.
Import ListNotations.
Open Scope string_scope.

Section Tie.
  Context {T : Type} (N : NumOps T).
  Notation UL := (@Rows.UL T).

  Lemma gen_match_mem (m : mach (T:=T)) tb mem p d s :
    g_match_mem_entries m tb mem (HPat p d s) = lift (match_mem (isa_of (m_isa m)) mem p).
  Proof.
    unfold g_match_mem_entries. destruct (m_isa m); cbn.
    - destruct (is_x86_mem_type p mem); reflexivity.
    - reflexivity.
  Qed.

  Lemma gen_load_latency (m : mach (T:=T)) tb rt : g_get_load_latency N m tb rt = load_latency N m rt.
  Proof. reflexivity. Qed.

  Lemma gen_store_latency (m : mach (T:=T)) tb rt : g_get_store_latency m tb rt = 0%Z.
  Proof. reflexivity. Qed.

  (* what a getter row shows of its head: the `dst` (load table) / `src` (store table) attribute *)
  Definition dst_view (l : list (rowhead * UL)) : list (option string * UL) := map (fun p => (rh_dst (fst p), snd p)) l.
  Definition src_view (l : list (rowhead * UL)) : list (option string * UL) := map (fun p => (rh_src (fst p), snd p)) l.
  Definition res_map {A B} (f : A -> B) (r : res A) : res B := match r with Ok a => Ok (f a) | Err e => Err e end.

  Lemma shape_filter (m : mach (T:=T)) tb mem (head : row UL -> rowhead) (tbl : list (row UL)) :
    (forall r, exists d s, head r = HPat (rw_pat r) d s) ->
    py_filter_res (fun v_m => bind (g_match_mem_entries m tb mem (head v_m)) (fun t => Ok t)) tbl
    = lift (shape_rows (isa_of (m_isa m)) tbl mem).
  Proof.
    intros H. unfold shape_rows. apply py_filter_res_lift. intros r _. rewrite bind_ok_id.
    destruct (H r) as [d [s E]]. rewrite E. apply gen_match_mem.
  Qed.

  Theorem gen_get_load_throughput (m : mach (T:=T)) tb mem :
    g_get_load_throughput m tb mem =
    lift (option_map (fun l => match l with [] => [(HOp mem, t_ld_default tb)] | _ => map ld_item l end)
                     (shape_rows (isa_of (m_isa m)) (t_ld tb) mem)).
  Proof.
    unfold g_get_load_throughput. rewrite shape_filter by (intros r; eexists; eexists; reflexivity).
    destruct (shape_rows _ _ _) as [l|]; cbn; [|reflexivity].
    rewrite py_len_pos. destruct l; reflexivity.
  Qed.

  Theorem gen_get_load_throughput_view (m : mach (T:=T)) tb mem :
    res_map dst_view (g_get_load_throughput m tb mem) =
    lift (Rows.get_load_throughput (isa_of (m_isa m)) (t_ld tb) (t_ld_default tb) mem).
  Proof.
    rewrite gen_get_load_throughput. unfold Rows.get_load_throughput.
    destruct (shape_rows _ _ _) as [l|]; cbn; [|reflexivity].
    destruct l; cbn; [reflexivity|]. f_equal. unfold dst_view, or_default. cbn. f_equal. rewrite map_map. reflexivity.
  Qed.

  (* the source-register filter *)
  Lemma typed_filter (m : mach (T:=T)) (src : regop) rt (l : list (row UL)) : src = reg_of_name (Some rt) ->
    py_filter_res (fun v_tp =>
      bind (if negb (negb (is_some (rh_src (st_head v_tp))))
            then bind (py_check_operands (m_isa m) src (reg_of_name (rh_src (st_head v_tp)))) (fun t => Ok t)
            else Ok false) (fun t => Ok t)) l
    = lift (filter_opt (typed_test (isa_of (m_isa m)) rt) l).
  Proof.
    intros ->. apply py_filter_res_lift. intros r _. rewrite bind_ok_id. unfold typed_test, st_head. cbn [rh_src].
    destruct (rw_typ r) as [s|]; cbn; [|reflexivity]. rewrite bind_ok_id. reflexivity.
  Qed.

  Theorem gen_get_store_throughput (m : mach (T:=T)) tb mem rt :
    g_get_store_throughput m tb mem (Some (reg_of_name (Some rt))) =
    lift (match shape_rows (isa_of (m_isa m)) (t_st tb) mem with
          | None => None
          | Some l => option_map (fun l => match l with [] => [(HOp mem, t_st_default tb)] | _ => map st_item l end)
                                 (filter_opt (typed_test (isa_of (m_isa m)) rt) l)
          end).
  Proof.
    unfold g_get_store_throughput. rewrite shape_filter by (intros r; eexists; eexists; reflexivity).
    destruct (shape_rows _ _ _) as [l|]; [|reflexivity]. cbn [lift bind].
    rewrite (typed_filter m _ rt) by reflexivity.
    destruct (filter_opt _ l) as [l'|]; cbn; [|reflexivity].
    rewrite py_len_pos. destruct l'; reflexivity.
  Qed.

  Theorem gen_get_store_throughput_nosrc (m : mach (T:=T)) tb mem :
    g_get_store_throughput m tb mem None =
    lift (option_map (fun l => match l with [] => [(HOp mem, t_st_default tb)] | _ => map st_item l end)
                     (shape_rows (isa_of (m_isa m)) (t_st tb) mem)).
  Proof.
    unfold g_get_store_throughput. rewrite shape_filter by (intros r; eexists; eexists; reflexivity).
    destruct (shape_rows _ _ _) as [l|]; cbn; [|reflexivity].
    rewrite py_len_pos. destruct l; reflexivity.
  Qed.

  Theorem gen_get_store_throughput_view (m : mach (T:=T)) tb mem (src : option string) :
    res_map src_view (g_get_store_throughput m tb mem (option_map (fun rt => reg_of_name (Some rt)) src)) =
    lift (Rows.get_store_throughput (isa_of (m_isa m)) (t_st tb) (t_st_default tb) mem src).
  Proof.
    unfold Rows.get_store_throughput. destruct src as [rt|]; cbn [option_map].
    - rewrite gen_get_store_throughput. destruct (shape_rows _ _ _) as [l|]; cbn; [|reflexivity].
      destruct (filter_opt _ l) as [l'|]; cbn; [|reflexivity].
      destruct l'; cbn; [reflexivity|]. f_equal. unfold src_view, or_default. cbn. f_equal. rewrite map_map. reflexivity.
    - rewrite gen_get_store_throughput_nosrc. destruct (shape_rows _ _ _) as [l|]; cbn; [|reflexivity].
      destruct l; cbn; [reflexivity|]. f_equal. unfold src_view, or_default. cbn. f_equal. rewrite map_map. reflexivity.
  Qed.

  (* ---------------------------------------------------------------- stage 2: _handle_instruction_found *)
  Definition found_flags (e : pyentry T) (pp : list T) (has_ld : bool) : list flag :=
    (if andb (neqb N (nsum N pp) (n0 N)) (is_some (en_throughput e)) then [F_NOT_BOUND] else []) ++
    (if is_some (en_throughput e) then [] else [F_TP_UNKWN]) ++
    (if is_some (en_latency e) then [] else [F_LT_UNKWN]) ++
    (if has_ld then [F_LD] else []).
  Definition onum0 (x : option T) : T := match x with Some v => v | None => n0 N end.

  Lemma gen_found (m : mach (T:=T)) tb e f fl :
    g_handle_instruction_found N m tb e (py_len (m_ports m)) f fl =
    bind (avg_pressure N (m_ports m) (en_port_pressure e)) (fun pp =>
      Ok ((onum0 (en_throughput e), pp, onum0 (en_latency e), Some (onum0 (en_latency e))),
          set_fo_port_pressure (set_fo_port_uops f (puops_of_uops (en_port_pressure e))) pp,
          (fl ++ found_flags e pp (py_in_flag F_HAS_LD (fo_flags f)))%list)).
  Proof.
    unfold g_handle_instruction_found.
    rewrite C01gen.C01gen_average_port_pressure_is_model.
    destruct (avg_pressure N (m_ports m) (en_port_pressure e)) as [pp|x] eqn:E; [|reflexivity].
    cbn [bind]. rewrite (py_len_eqb pp (m_ports m)) by (eapply avg_pressure_len; eauto).
    unfold found_flags, onum0. cbn [andb fo_flags set_fo_port_pressure set_fo_port_uops].
    unfold py_in_flag.
    destruct (en_throughput e), (en_latency e), (neqb N (nsum N pp) (n0 N)); cbn;
      destruct (existsb (flag_eqb F_HAS_LD) (fo_flags f)); cbn; rewrite <- ?app_assoc; cbn; rewrite ?app_nil_r; reflexivity.
  Qed.

  (* ---------------------------------------------------------------- stage 3: the look-up cascade *)
  Lemma last_char_none s : last_char s = None -> s = "".
  Proof.
    destruct s as [|c r]; [reflexivity|]. revert c. induction r as [|d r IH]; intros c H; [discriminate|].
    cbn [last_char] in H. specialize (IH d). cbn [last_char] in IH. destruct r; [discriminate|]. apply IH in H. discriminate.
  Qed.

  Lemma cascade_reg {A B} (a : Costing.isa) (mn : string) (g : string -> option A) (K : option A -> res B) :
    (a = X86 -> g mn = None -> mn <> "") ->
    bind (if negb (is_some (g mn))
          then (if String.eqb (isa_str a) "x86" then bind (py_str_last mn) (fun t5 => Ok (py_substr t5 "bswlqt")) else Ok false)
          else Ok false)
      (fun t6 => bind (if t6 then Ok (g (py_slice_to_m1 mn)) else Ok (g mn))
        (fun idr => bind (if andb (negb (is_some idr)) (andb (String.eqb (isa_str a) "aarch64") (py_substr "." mn))
                          then bind (py_str_index mn ".") (fun t7 => Ok (g (py_str_prefix mn t7))) else Ok idr) K))
    = K (cascade a mn g).
  Proof.
    intros Hne. unfold cascade, stripped_name, fallback_name.
    destruct (g mn) as [e|] eqn:G; cbn [is_some negb bind]; [reflexivity|].
    destruct a; cbn [isa_str isa_of String.eqb Ascii.eqb Bool.eqb bind andb].
    - unfold py_str_last. destruct (last_char mn) as [c|] eqn:L.
      2: { apply last_char_none in L. exfalso. apply (Hne eq_refl eq_refl L). }
      cbn [bind]. change GAS_SUFFIXES with "bswlqt".
      destruct (py_substr (String c "") "bswlqt"); cbn [bind]; rewrite andb_false_r; reflexivity.
    - cbn [is_some negb andb].
      destruct (py_substr "." mn) eqn:D; [|reflexivity].
      destruct (str_index_dot0 mn D) as [k [I P]]. rewrite I. cbn [bind]. rewrite P. reflexivity.
  Qed.

  Lemma cascade_direct {A B} (a : Costing.isa) (mn : string) (g : string -> option A) (K : option A -> res B) :
    (a = X86 -> g mn = None -> mn <> "") ->
    bind (if negb (is_some (g mn))
          then (if String.eqb (isa_str a) "x86" then bind (py_str_last mn) (fun t5 => Ok (py_substr t5 "bswlqt")) else Ok false)
          else Ok false)
      (fun t6 => bind (if t6 then Ok (g (py_slice_to_m1 mn)) else Ok (g mn))
        (fun idr => bind (if andb (negb (is_some idr)) (andb (String.eqb (isa_str a) "aarch64") (py_substr "." mn))
                          then bind (py_str_index mn ".") (fun t7 => Ok (Some t7, g (py_str_prefix mn t7))) else Ok (None, idr))
                         (fun p => let '(_, idata) := p in K idata)))
    = K (cascade a mn g).
  Proof.
    intros Hne. unfold cascade, stripped_name, fallback_name.
    destruct (g mn) as [e|] eqn:G; cbn [is_some negb bind]; [reflexivity|].
    destruct a; cbn [isa_str isa_of String.eqb Ascii.eqb Bool.eqb bind andb].
    - unfold py_str_last. destruct (last_char mn) as [c|] eqn:L.
      2: { apply last_char_none in L. exfalso. apply (Hne eq_refl eq_refl L). }
      cbn [bind]. change GAS_SUFFIXES with "bswlqt".
      destruct (py_substr (String c "") "bswlqt"); cbn [bind]; rewrite andb_false_r; reflexivity.
    - cbn [is_some negb andb].
      destruct (py_substr "." mn) eqn:D; [|reflexivity].
      destruct (str_index_dot0 mn D) as [k [I P]]. rewrite I. cbn [bind]. rewrite P. reflexivity.
  Qed.

  Lemma wf_cascade {A B} a mn (g : string -> option A) (F : A -> B) :
    with_fallback (match stripped_name a mn with Some _ => true | None => false end) (option_map F (g mn))
       (match stripped_name a mn with Some s => option_map F (g s) | None => None end) = option_map F (cascade a mn g).
  Proof. unfold with_fallback, cascade. destruct (g mn); cbn; [reflexivity|]. destruct (stripped_name a mn); reflexivity. Qed.

  Lemma final_flags_eq F C : canon_flags (if py_is_nil F then canon_flags C else F ++ canon_flags C)%list = canon_flags (F ++ C).
  Proof.
    apply canon_ext; intro x. destruct F as [|a F']; cbn [py_is_nil].
    - apply in_flag_canon.
    - rewrite !in_flag_app, in_flag_canon. reflexivity.
  Qed.

  Lemma fresh_others F : (forall x, In x F -> x = F_HAS_LD \/ x = F_HAS_ST) ->
    py_in_flag F_LD F = false /\ py_in_flag F_TP_UNKWN F = false /\ py_in_flag F_LT_UNKWN F = false /\ py_in_flag F_NOT_BOUND F = false.
  Proof.
    intros H. repeat split.
    all: match goal with |- ?b = false => destruct b eqn:E; [|reflexivity] end.
    all: apply in_flag_In in E; apply H in E; destruct E; discriminate.
  Qed.

  Lemma final_obs (f1 : pyform T) fl tp lat lw :
    observe (bind (if py_is_nil (fo_flags f1) then Ok (set_fo_flags f1 (canon_flags fl))
                   else Ok (set_fo_flags f1 (fo_flags f1 ++ canon_flags fl)%list))
        (fun v => Ok (set_fo_latency_lcd (set_fo_latency_cp (set_fo_latency_wo_load (set_fo_latency
                        (set_fo_throughput v (Some tp)) (Some lat)) (Some lw)) 0) 0)))
    = Ok (mkcost (fo_port_uops f1) (fo_port_pressure f1) lat lw tp (canon_flags (fo_flags f1 ++ fl))).
  Proof. rewrite <- final_flags_eq. destruct (py_is_nil (fo_flags f1)); reflexivity. Qed.

  (* a getter row as Model/Costing.v's ldrow *)
  Definition typedb (a : Match.isa) rt (p : rowhead * UL) : bool :=
    match rh_dst (fst p) with Some s => type_okb a rt s | None => false end.
  Definition ldrow_of (a : Match.isa) rt (p : rowhead * UL) : ldrow (T:=T) := mkldrow (rh_dst (fst p)) (typedb a rt p) (snd p).

  Lemma filter_map_comm {A B} (g : B -> bool) (h : A -> B) : forall l, filter g (map h l) = map h (filter (fun x => g (h x)) l).
  Proof. induction l as [|x l IH]; [reflexivity|]. cbn. destruct (g (h x)); cbn; rewrite IH; reflexivity. Qed.

  Lemma choose_gen (i : Costing.isa) rt (L : list (rowhead * UL)) {B} (K : UL -> res B) :
    bind (py_filter_res (fun v_ldp : rowhead * UL =>
            bind (if negb (negb (is_some (rh_dst (fst v_ldp))))
                  then bind (py_check_operands i (reg_of_name (Some rt)) (reg_of_name (rh_dst (fst v_ldp)))) (fun t => Ok t)
                  else Ok false) (fun t => Ok t)) L)
      (fun t15 => bind (if Z.ltb (py_len (map (fun v : rowhead * UL => snd v) t15)) 1
                        then bind (nth_res L 0) (fun t16 => Ok (snd t16))
                        else bind (nth_res (map (fun v : rowhead * UL => snd v) t15) 0) (fun t17 => Ok t17)) K)
    = bind (choose_load_row (map (ldrow_of (isa_of i) rt) L)) K.
  Proof.
    rewrite (py_filter_res_total _ (typedb (isa_of i) rt)).
    2: { intros p _. rewrite bind_ok_id. unfold typedb, type_okb. destruct (rh_dst (fst p)) as [s|]; cbn [is_some negb]; [|reflexivity].
         rewrite bind_ok_id. unfold py_check_operands. change (check_operand (isa_of i) (PReg (reg_of_name (Some rt))) (OReg (reg_of_name (Some s))))
           with (type_ok (isa_of i) rt s). pose proof (type_ok_total (isa_of i) rt s) as Ht.
         destruct (type_ok (isa_of i) rt s); [reflexivity|contradiction]. }
    cbn [bind]. rewrite py_len_lt1. unfold choose_load_row, typed_rows.
    rewrite (filter_map_comm _ (ldrow_of (isa_of i) rt)).
    rewrite (filter_ext (fun x => match r_dst (ldrow_of (isa_of i) rt x) with Some _ => r_ok (ldrow_of (isa_of i) rt x) | None => false end) (typedb (isa_of i) rt)).
    2: { intros p. unfold ldrow_of, typedb. cbn [r_dst r_ok]. destruct (rh_dst (fst p)); reflexivity. }
    destruct L as [|p L']; [reflexivity|].
    destruct (filter (typedb (isa_of i) rt) (p :: L')) as [|q qs]; reflexivity.
  Qed.

  Lemma ldrows_of_rows (a : Match.isa) rt (d : UL) mem (l : list (row UL)) :
    to_ldrows a rt (or_default d l) = map (ldrow_of a rt) (match l with [] => [(HOp mem, d)] | _ => map ld_item l end).
  Proof.
    unfold to_ldrows, or_default. destruct l as [|x l']; [reflexivity|]. rewrite !map_map. reflexivity.
  Qed.

  Lemma strows_of_rows (d : UL) mem (l : list (row UL)) :
    map snd (or_default d l) = map snd (match l with [] => [(HOp mem, d)] | _ => map st_item l end).
  Proof. unfold or_default. destruct l as [|x l']; [reflexivity|]. rewrite !map_map. reflexivity. Qed.

  Definition rm_st (l : list flag) : list flag := match py_remove_flag l F_HAS_ST with Ok l' => l' | Err _ => l end.
  Lemma rm_st_ok l : NoDup l -> py_in_flag F_HAS_ST l = true -> py_remove_flag l F_HAS_ST = Ok (rm_st l).
  Proof. intros ND H. destruct (remove_flag_spec F_HAS_ST l ND H) as [l' [R _]]. unfold rm_st. rewrite R. reflexivity. Qed.
  Lemma rm_st_in l y : NoDup l -> py_in_flag F_HAS_ST l = true ->
    py_in_flag y (rm_st l) = if flag_eqb y F_HAS_ST then false else py_in_flag y l.
  Proof. intros ND H. destruct (remove_flag_spec F_HAS_ST l ND H) as [l' [R [_ S]]]. unfold rm_st. rewrite R. apply S. Qed.

  Lemma gen_load_block (m : mach (T:=T)) tb (f : pyform T) rt ldr (lkx : lookup (T:=T)) {B} (K : UL -> list T -> res B) :
    (if py_in_flag F_HAS_LD (fo_flags f) then ld_rows_of (isa_of (m_isa m)) tb (memq_of f) rt else Some []) = Some ldr ->
    lk_has_ld lkx = py_in_flag F_HAS_LD (fo_flags f) -> lk_ld_rows lkx = ldr ->
    bind (if py_in_flag F_HAS_LD (fo_flags f)
          then
            bind (nth_res (py_mems (fo_source f ++ fo_src_dst f)) 0) (fun t11_ =>
            bind (g_get_load_throughput m tb t11_) (fun t12_ =>
            bind (py_filter_res (fun v_ldp : rowhead * list uop =>
                     bind (if negb (negb (is_some (rh_dst (fst v_ldp))))
                           then bind (py_check_operands (m_isa m) (reg_of_name (Some rt)) (reg_of_name (rh_dst (fst v_ldp)))) (fun t13_ => Ok t13_)
                           else Ok false) (fun t14_ => Ok t14_)) t12_) (fun t15_ =>
            bind (if (py_len (map (fun v_ldp : rowhead * list uop => snd v_ldp) t15_) <? 1)%Z
                  then bind (nth_res t12_ 0) (fun t16_ => Ok (snd t16_))
                  else bind (nth_res (map (fun v_ldp : rowhead * list uop => snd v_ldp) t15_) 0) (fun t17_ => Ok t17_)) (fun v_data_port_uops =>
            bind (PressureGen.g_average_port_pressure N (m_ports m) (UList v_data_port_uops) 0) (fun t18_ =>
            if is_some (m_ld_mult m)
            then bind (py_getitem_opt (m_ld_mult m)) (fun t19_ => bind (py_assoc t19_ rt) (fun t20_ =>
                   Ok (v_data_port_uops, map (fun v_pp : T => nmul N v_pp t20_) t18_, Some t20_)))
            else Ok (v_data_port_uops, t18_, None))))))
          else Ok ([], map (fun _ : Z => n0 N) (py_range (py_len (m_ports m))), None))
      (fun x => let '(us, pp, _) := x in K us pp)
    = bind (load_part N m lkx rt) (fun x => let '(pp, us) := x in K us pp).
  Proof.
    intros LD H1 H2. unfold load_part. rewrite H1, H2. destruct (py_in_flag F_HAS_LD (fo_flags f)).
    - unfold ld_rows_of, memq_of in LD. cbn [q_ld] in LD. rewrite nth0_hd.
      destruct (hd_error (py_mems (fo_source f ++ fo_src_dst f))) as [mem|].
      + cbn [bind]. rewrite gen_get_load_throughput. unfold Rows.get_load_throughput in LD.
        destruct (shape_rows (isa_of (m_isa m)) (t_ld tb) mem) as [l|]; cbn [option_map] in LD; [|discriminate].
        injection LD as <-. cbn [lift option_map bind]. rewrite choose_gen. rewrite (ldrows_of_rows _ _ _ mem).
        destruct (choose_load_row _) as [us|x]; cbn [bind]; [|reflexivity].
        rewrite C01gen.C01gen_average_port_pressure_is_model. cbn [avg_pressure].
        destruct (avg_pressure_list N (m_ports m) us) as [pp|x]; cbn [bind]; [|reflexivity].
        unfold scale_by. destruct (m_ld_mult m) as [tab|]; cbn [is_some py_getitem_opt bind]; [|reflexivity].
        unfold py_assoc. destruct (assoc rt tab); reflexivity.
      + injection LD as <-. reflexivity.
    - cbn [bind]. rewrite map_const_range. reflexivity.
  Qed.

  Lemma gen_store_block (m : mach (T:=T)) tb (f : pyform T) rt str (lkx : lookup (T:=T)) dpp duops {B}
        (K : pyform T -> list T -> UL -> res B) :
    (if py_in_flag F_HAS_ST (fo_flags f) then st_rows_of (isa_of (m_isa m)) tb (memq_of f) rt else Some []) = Some str ->
    lk_has_st lkx = py_in_flag F_HAS_ST (fo_flags f) -> lk_st_rows lkx = str ->
    lk_dest_has_mem lkx = existsb is_mem (fo_destination f) -> lk_srcdst_wb lkx = map wb (py_mems (fo_src_dst f)) ->
    NoDup (fo_flags f) ->
    bind (if py_in_flag F_HAS_ST (fo_flags f)
          then
            bind (nth_res (py_mems (fo_destination f ++ fo_src_dst f)) 0) (fun t21_ =>
            bind (g_get_store_throughput m tb t21_ (Some (reg_of_name (Some rt)))) (fun t22_ =>
            bind (nth_res t22_ 0) (fun t23_ =>
            bind (if (isa_str (m_isa m) =? "aarch64") &&
                     (negb (existsb (fun v_op : operand => is_mem v_op) (fo_destination f)) &&
                      forallb (fun v_op : memop => postix_truth (m_post v_op) || m_pre v_op) (py_mems (fo_src_dst f)))
                  then bind (py_remove_flag (fo_flags f) F_HAS_ST) (fun t24_ => Ok ([], set_fo_flags f t24_))
                  else Ok (snd t23_, f)) (fun x0 =>
            let '(v_st_data_port_uops, v_instruction_form) := x0 in
            bind (PressureGen.g_average_port_pressure N (m_ports m) (UList v_st_data_port_uops) 0) (fun t25_ =>
            bind (if is_some (m_st_mult m)
                  then bind (py_getitem_opt (m_st_mult m)) (fun t26_ => bind (py_assoc t26_ rt) (fun t27_ =>
                         Ok (map (fun v_pp : T => nmul N v_pp t27_) t25_)))
                  else Ok t25_) (fun v_st_data_port_pressure =>
            Ok (v_instruction_form,
                map (fun v_x : T * T => nsum N [fst v_x; snd v_x]) (py_zip dpp v_st_data_port_pressure),
                (duops ++ v_st_data_port_uops)%list)))))))
          else Ok (f, dpp, duops))
      (fun x => let '(fm, p, u) := x in K fm p u)
    = bind (store_part N m lkx rt dpp duops) (fun x => let '(p, u, _) := x in
        K (if andb (py_in_flag F_HAS_ST (fo_flags f)) (writeback_only (m_isa m) lkx)
           then set_fo_flags f (rm_st (fo_flags f)) else f) p u).
  Proof.
    intros ST H1 H2 H3 H4 ND. unfold store_part, store_uops, writeback_only. rewrite H1, H2, H3, H4.
    destruct (py_in_flag F_HAS_ST (fo_flags f)) eqn:HST; [|reflexivity].
    unfold st_rows_of, memq_of in ST. cbn [q_st] in ST. rewrite nth0_hd.
    destruct (hd_error (py_mems (fo_destination f ++ fo_src_dst f))) as [mem|].
    2: { injection ST as <-. reflexivity. }
    cbn [bind]. rewrite gen_get_store_throughput. unfold Rows.get_store_throughput in ST.
    destruct (shape_rows (isa_of (m_isa m)) (t_st tb) mem) as [l|]; [|discriminate].
    destruct (filter_opt (typed_test (isa_of (m_isa m)) rt) l) as [l'|]; cbn [option_map] in ST; [|discriminate].
    injection ST as <-. cbn [lift option_map bind]. rewrite (strows_of_rows _ mem). rewrite forallb_wb.
    set (L := match l' with [] => [(HOp mem, t_st_default tb)] | _ :: _ => map st_item l' end).
    assert (HL : exists h tl, L = h :: tl) by (unfold L; destruct l'; eexists; eexists; reflexivity).
    destruct HL as [h [tl ->]]. cbn [nth_res nth_error bind map andb]. unfold Rows.UL in *.
    destruct (m_isa m); cbn [isa_str String.eqb Ascii.eqb Bool.eqb andb bind].
    - rewrite C01gen.C01gen_average_port_pressure_is_model. cbn [avg_pressure].
      destruct (avg_pressure_list N (m_ports m) (snd h)) as [pp|x]; cbn [bind]; [|reflexivity].
      unfold scale_by. destruct (m_st_mult m) as [tab|]; cbn [is_some py_getitem_opt bind]; [|reflexivity].
      unfold py_assoc. destruct (assoc rt tab); reflexivity.
    - destruct (negb (existsb is_mem (fo_destination f)) && forallb (fun b : bool => b) (map wb (py_mems (fo_src_dst f)))).
      + rewrite (rm_st_ok _ ND HST). cbn [bind]. rewrite C01gen.C01gen_average_port_pressure_is_model. cbn [avg_pressure].
        destruct (avg_pressure_list N (m_ports m) []) as [pp|x]; cbn [bind]; [|reflexivity].
        unfold scale_by. destruct (m_st_mult m) as [tab|]; cbn [is_some py_getitem_opt bind]; [|reflexivity].
        unfold py_assoc. destruct (assoc rt tab); reflexivity.
      + cbn [bind]. rewrite C01gen.C01gen_average_port_pressure_is_model. cbn [avg_pressure].
        destruct (avg_pressure_list N (m_ports m) (snd h)) as [pp|x]; cbn [bind]; [|reflexivity].
        unfold scale_by. destruct (m_st_mult m) as [tab|]; cbn [is_some py_getitem_opt bind]; [|reflexivity].
        unfold py_assoc. destruct (assoc rt tab); reflexivity.
  Qed.

  Arguments canon_flags : simpl never.
  Arguments py_in_flag : simpl never.

  Section Main.
    Variable gi : string -> list operand -> option (pyentry T).
    Variable grt : pattern -> res string.
    Theorem gen_assign_tp_lt_main (m : mach (T:=T)) tb f r : fresh_form f -> spec_cost N gi grt m tb f = Some r ->
      observe (g_assign_tp_lt N m tb gi grt f) = r.
    Proof.
      intros [Hpu [Hnd [Hfl Hnone]]] Hs. unfold spec_cost in Hs.
      destruct (fresh_others _ Hfl) as [FLD [FTP [FLT FNB]]].
      unfold g_assign_tp_lt. cbv zeta.
      destruct (fo_mnemonic f) as [mn|] eqn:Emn.
      2: { (* label / comment / directive *)
        unfold empty_mnemonic_raises, line_of in Hs. rewrite Emn in Hs.
        assert (r = Ok (mkcost (PList []) (zeros N (m_ports m)) (n0 N) (n0 N) (n0 N) [])) as ->.
        { destruct (m_isa m); cbn in Hs; injection Hs as <-; reflexivity. }
        cbn. rewrite (Hnone eq_refl). cbn. rewrite map_const_range. reflexivity. }
      destruct (empty_mnemonic_raises gi m f) eqn:EM.
      { unfold empty_mnemonic_raises in EM. rewrite Emn in EM. destruct (m_isa m) eqn:I; [|discriminate].
        destruct mn; [|discriminate]. destruct (gi "" (fo_operands f)) eqn:G; [discriminate|].
        injection Hs as <-. reflexivity. }
      assert (Hne : m_isa m = X86 -> gi mn (fo_operands f) = None -> mn <> "").
      { intros I G ->. unfold empty_mnemonic_raises in EM. rewrite Emn, I, G in EM. discriminate. }
      rewrite (cascade_direct (m_isa m) mn (fun n => gi n (fo_operands f))) by exact Hne.
      unfold line_of in Hs. rewrite Emn in Hs. cbn [cost_line_rows] in Hs. unfold cost_instr_rows, regform, lookup_of in Hs.
      cbn [lk_suffix lk_direct lk_direct_s lk_reg lk_reg_s lk_has_ld lk_has_st] in Hs.
      cbv zeta in Hs. unfold regq in Hs.
      rewrite (wf_cascade (m_isa m) mn (fun n => gi n (fo_operands f)) (entry_of (T:=T))) in Hs.
      rewrite (wf_cascade (m_isa m) mn (fun n => gi n (substitute (fo_operands f)))
                 (fun e => (entry_of e, reg_type_of grt e (substitute (fo_operands f))))) in Hs.
      destruct (cascade (m_isa m) mn (fun n => gi n (fo_operands f))) as [e|] eqn:D; cbn [option_map] in Hs.
      - (* the instruction has an entry of its own *)
        injection Hs as <-. rewrite gen_found. unfold found. cbn [e_uops e_tp e_lt entry_of lk_has_ld lk_has_st].
        destruct (avg_pressure N (m_ports m) (en_port_pressure e)) as [pp|x]; [|reflexivity].
        cbn [bind py_bound lift]. unfold py_list_set_flags. rewrite final_obs.
        cbn [fo_flags fo_port_uops fo_port_pressure set_fo_port_pressure set_fo_port_uops app]. f_equal. f_equal.
        rewrite canon_mkflags, !in_flag_app, FLD, FTP, FLT, FNB. unfold found_flags.
        destruct (en_throughput e), (en_latency e), (neqb N (nsum N pp) (n0 N)), (py_in_flag F_HAS_LD (fo_flags f)), (py_in_flag F_HAS_ST (fo_flags f)); reflexivity.
      - (* no entry of its own *)
        match type of Hs with context [fill_rows _ _ _ _ ?L] => set (lk := L) in Hs end.
        assert (Hunk : observe (bind (if py_is_nil (fo_flags (set_fo_port_pressure f (map (fun _ : Z => n0 N) (py_range (py_len (m_ports m))))))
                   then Ok (set_fo_flags (set_fo_port_pressure f (map (fun _ : Z => n0 N) (py_range (py_len (m_ports m))))) (canon_flags ([] ++ [F_TP_UNKWN; F_LT_UNKWN])))
                   else Ok (set_fo_flags (set_fo_port_pressure f (map (fun _ : Z => n0 N) (py_range (py_len (m_ports m)))))
                           (fo_flags (set_fo_port_pressure f (map (fun _ : Z => n0 N) (py_range (py_len (m_ports m))))) ++ canon_flags ([] ++ [F_TP_UNKWN; F_LT_UNKWN]))%list))
                 (fun v => Ok (set_fo_latency_lcd (set_fo_latency_cp (set_fo_latency_wo_load (set_fo_latency
                        (set_fo_throughput v (Some (n0 N))) (Some (n0 N))) (Some (n0 N))) 0) 0)))
                = Ok (unknown N m lk)).
        { rewrite final_obs. unfold unknown. cbn [fo_flags fo_port_uops fo_port_pressure set_fo_port_pressure lk lk_has_ld lk_has_st app].
          rewrite Hpu, map_const_range. f_equal. f_equal.
          rewrite canon_mkflags, !in_flag_app, FLD, FTP, FLT, FNB.
          destruct (py_in_flag F_HAS_LD (fo_flags f)), (py_in_flag F_HAS_ST (fo_flags f)); reflexivity. }
        unfold g_substitute_mem_address. rewrite (substitute_map (g_create_reg_wildcard m tb) (fo_operands f) eq_refl).
        destruct (py_in_flag F_HAS_LD (fo_flags f) || py_in_flag F_HAS_ST (fo_flags f)) eqn:HM.
        2: { injection Hs as <-. cbn [bind py_bound lift]. unfold py_list_set_flags. exact Hunk. }
        rewrite (cascade_reg (m_isa m) mn (fun n => gi n (substitute (fo_operands f)))).
        2: { intros I _. apply (Hne I). unfold cascade in D. destruct (gi mn (fo_operands f)); [discriminate|reflexivity]. }
        destruct (cascade (m_isa m) mn (fun n => gi n (substitute (fo_operands f)))) as [er|] eqn:R; cbn [option_map] in Hs.
        2: { injection Hs as <-. cbn [bind py_bound lift]. unfold py_list_set_flags. exact Hunk. }
        clear Hunk. unfold reg_type_of in Hs. cbn [py_index_operand g_create_reg_wildcard].
        destruct (index_wild (substitute (fo_operands f)) 0) as [iw|x]; cbn [bind] in Hs |- *; [|injection Hs as <-; reflexivity].
        destruct (nth_res (en_operands er) iw) as [pat|x]; cbn [bind] in Hs |- *; [|injection Hs as <-; reflexivity].
        destruct (grt pat) as [rt|x]; cbn [bind] in Hs |- *; [|injection Hs as <-; reflexivity].
        destruct (fill_rows m tb (memq_of f) rt lk) as [lk'|] eqn:FR; cbn [option_map] in Hs; [|discriminate].
        injection Hs as <-.
        unfold fill_rows in FR. cbn [lk lk_has_ld lk_has_st lk_suffix lk_direct lk_direct_s lk_reg lk_reg_s lk_dest_has_mem lk_srcdst_wb] in FR.
        destruct (if py_in_flag F_HAS_LD (fo_flags f) then ld_rows_of (isa_of (m_isa m)) tb (memq_of f) rt else Some []) as [ldr|] eqn:LD; [|discriminate].
        destruct (if py_in_flag F_HAS_ST (fo_flags f) then st_rows_of (isa_of (m_isa m)) tb (memq_of f) rt else Some []) as [str|] eqn:ST; [|discriminate].
        injection FR as <-. unfold compose. cbn [bind].
        match goal with |- _ = bind (load_part N m ?L rt) _ => set (lkx := L) end.
        rewrite (gen_load_block m tb f rt ldr lkx _ LD eq_refl eq_refl).
        destruct (load_part N m lkx rt) as [[dpp duops]|x]; cbn [bind]; [|reflexivity].
        rewrite (gen_store_block m tb f rt str lkx dpp duops _ ST eq_refl eq_refl eq_refl eq_refl Hnd).
        destruct (store_part N m lkx rt dpp duops) as [[[dpp2 duops2] st']|x] eqn:SP; cbn [bind]; [|reflexivity].
        assert (Hst' : st' = andb (py_in_flag F_HAS_ST (fo_flags f)) (negb (writeback_only (m_isa m) lkx))).
        { unfold store_part in SP. change (lk_has_st lkx) with (py_in_flag F_HAS_ST (fo_flags f)) in SP.
          destruct (py_in_flag F_HAS_ST (fo_flags f)); [|injection SP as _ _ <-; reflexivity].
          destruct (store_uops m lkx) as [su|]; cbn [bind] in SP; [|discriminate].
          destruct (avg_pressure_list N (m_ports m) su) as [spp|]; cbn [bind] in SP; [|discriminate].
          destruct (scale_by N (m_st_mult m) rt spp); cbn [bind] in SP; [|discriminate]. injection SP as _ _ <-. reflexivity. }
        set (FM := if py_in_flag F_HAS_ST (fo_flags f) && writeback_only (m_isa m) lkx then set_fo_flags f (rm_st (fo_flags f)) else f).
        assert (HFM : forall y, py_in_flag y (fo_flags FM) =
                      if andb (andb (py_in_flag F_HAS_ST (fo_flags f)) (writeback_only (m_isa m) lkx)) (flag_eqb y F_HAS_ST)
                      then false else py_in_flag y (fo_flags f)).
        { intros y. unfold FM. destruct (py_in_flag F_HAS_ST (fo_flags f)) eqn:HST; cbn [andb]; [|reflexivity].
          destruct (writeback_only (m_isa m) lkx); cbn [andb]; [|reflexivity].
          cbn [fo_flags set_fo_flags]. apply rm_st_in; assumption. }
        destruct (list_max N dpp2) as [mx|x]; cbn [bind]; [|reflexivity].
        destruct (en_throughput er) as [tpv|]; cbn [py_max2_onum bind]; [|reflexivity].
        rewrite (HFM F_HAS_LD). cbn [flag_eqb andb]. rewrite andb_false_r.
        change (lk_has_ld lkx) with (py_in_flag F_HAS_LD (fo_flags f)).
        change (g_get_load_latency N m tb rt) with (load_latency N m rt). rewrite bind_ok_id.
        destruct (if py_in_flag F_HAS_LD (fo_flags f) then load_latency N m rt else Ok (n0 N)) as [ll|x]; cbn [bind]; [|reflexivity].
        destruct (en_latency er) as [lt|]; cbn [py_add_onum bind]; [|reflexivity].
        rewrite C01gen.C01gen_average_port_pressure_is_model.
        destruct (avg_pressure N (m_ports m) (en_port_pressure er)) as [rpp|x]; cbn [bind]; [|reflexivity].
        cbn [py_bound lift bind]. unfold py_list_set_flags. rewrite final_obs.
        cbn [fo_flags fo_port_uops fo_port_pressure set_fo_port_pressure set_fo_port_uops app].
        f_equal. unfold py_chain_uops, add2, py_zip, pymax, py_max2. f_equal.
        + unfold py_num_of_int, g_get_store_latency. destruct (py_in_flag F_HAS_ST (fo_flags FM)); reflexivity.
        + rewrite app_nil_r, canon_mkflags, !HFM, FLD, FTP, FLT, FNB, Hst'. cbn [flag_eqb].
          destruct (py_in_flag F_HAS_LD (fo_flags f)), (py_in_flag F_HAS_ST (fo_flags f)), (writeback_only (m_isa m) lkx); reflexivity.
    Qed.
  End Main.
End Tie.

(* ====================================================================== property-level theorems *)
From OV Require Props.C08.
From Coq Require Import QArith.

(* stage 1: the getters of hw_model.py are Model/Rows.v *)
Theorem C08gen_match_mem_entries_is_model : forall {T} (m : mach (T:=T)) tb mem p d s,
  g_match_mem_entries m tb mem (HPat p d s) = lift (match_mem (isa_of (m_isa m)) mem p).
Proof. exact @gen_match_mem. Qed.
Print Assumptions C08gen_match_mem_entries_is_model.

Theorem C08gen_get_load_throughput_is_model : forall {T} (m : mach (T:=T)) tb mem,
  res_map dst_view (g_get_load_throughput m tb mem) =
  lift (Rows.get_load_throughput (isa_of (m_isa m)) (t_ld tb) (t_ld_default tb) mem).
Proof. exact @gen_get_load_throughput_view. Qed.
Print Assumptions C08gen_get_load_throughput_is_model.

Theorem C08gen_get_store_throughput_is_model : forall {T} (m : mach (T:=T)) tb mem (src : option string),
  res_map src_view (g_get_store_throughput m tb mem (option_map (fun rt => reg_of_name (Some rt)) src)) =
  lift (Rows.get_store_throughput (isa_of (m_isa m)) (t_st tb) (t_st_default tb) mem src).
Proof. exact @gen_get_store_throughput_view. Qed.
Print Assumptions C08gen_get_store_throughput_is_model.

Theorem C08gen_get_load_latency_is_model : forall {T} (N : NumOps T) m tb rt,
  g_get_load_latency N m tb rt = load_latency N m rt /\ g_get_store_latency m tb rt = 0%Z.
Proof. intros. split; reflexivity. Qed.
Print Assumptions C08gen_get_load_latency_is_model.

(* stage 2: _handle_instruction_found is Costing.found (values, the updated form, the appended flags) *)
Theorem C08gen_handle_instruction_found_is_model : forall {T} (N : NumOps T) (m : mach (T:=T)) tb e f fl,
  g_handle_instruction_found N m tb e (py_len (m_ports m)) f fl =
  bind (avg_pressure N (m_ports m) (en_port_pressure e)) (fun pp =>
    Ok ((onum0 N (en_throughput e), pp, onum0 N (en_latency e), Some (onum0 N (en_latency e))),
        set_fo_port_pressure (set_fo_port_uops f (puops_of_uops (en_port_pressure e))) pp,
        (fl ++ found_flags N e pp (py_in_flag F_HAS_LD (fo_flags f)))%list)).
Proof. exact @gen_found. Qed.
Print Assumptions C08gen_handle_instruction_found_is_model.

(* stages 2+3: the regenerated assign_tp_lt IS the hand model (Model/Costing.v with the rows selected by Model/Rows.v) applied
   to the look-ups the code performs, for every numeric instance, machine model, table, `get_instruction`, `get_reg_type` and
   every form as the parser + assign_src_dst deliver it; error outcomes included *)
Theorem C08gen_assign_tp_lt_is_model : forall {T} (N : NumOps T) gi grt (m : mach (T:=T)) tb f r,
  fresh_form f -> spec_cost N gi grt m tb f = Some r ->
  observe (g_assign_tp_lt N m tb gi grt f) = r.
Proof. exact @gen_assign_tp_lt_main. Qed.
Print Assumptions C08gen_assign_tp_lt_is_model.

(* what the code computed is what Model/Rows.v + Model/Costing.v compute on the code's look-ups *)
Lemma gen_rows_ok {T} (N : NumOps T) gi grt (m : mach (T:=T)) tb f mn r c :
  fresh_form f -> fo_mnemonic f = Some mn -> spec_cost N gi grt m tb f = Some r ->
  observe (g_assign_tp_lt N m tb gi grt f) = Ok c ->
  cost_instr_rows N m tb (memq_of f) (lookup_of gi grt (m_isa m) mn f) = Some (Ok c).
Proof.
  intros Hf Hm Hs Ho. rewrite (gen_assign_tp_lt_main N gi grt m tb f r Hf Hs) in Ho. subst r.
  unfold spec_cost in Hs. destruct (empty_mnemonic_raises gi m f); [discriminate|].
  unfold line_of in Hs. rewrite Hm in Hs. exact Hs.
Qed.

(* the C08 theorems for the regenerated code *)
Theorem C08gen_compose_uops : forall {T} (N : NumOps T) gi grt (m : mach (T:=T)) tb f mn r c e rt ru,
  fresh_form f -> fo_mnemonic f = Some mn -> spec_cost N gi grt m tb f = Some r ->
  observe (g_assign_tp_lt N m tb gi grt f) = Ok c ->
  let lk := lookup_of gi grt (m_isa m) mn f in
  with_fallback (lk_suffix lk) (lk_direct lk) (lk_direct_s lk) = None -> regform lk = Some (e, Ok rt) -> e_uops e = UList ru ->
  c_uops c = PList (ru ++ ld_part (isa_of (m_isa m)) tb (memq_of f) rt lk ++ st_part m tb (memq_of f) rt lk).
Proof.
  intros T N gi grt m tb f mn r c e rt ru Hf Hm Hs Ho lk H1 H2 H3.
  exact (proj1 (Props.C08.compose_uops_rows N m tb (memq_of f) lk e rt c ru H1 H2 (gen_rows_ok N gi grt m tb f mn r c Hf Hm Hs Ho) H3)).
Qed.
Print Assumptions C08gen_compose_uops.

Theorem C08gen_compose_latency : forall gi grt (m : mach (T:=Q)) tb f mn r c e rt,
  fresh_form f -> fo_mnemonic f = Some mn -> spec_cost QNum gi grt m tb f = Some r ->
  observe (g_assign_tp_lt QNum m tb gi grt f) = Ok c ->
  let lk := lookup_of gi grt (m_isa m) mn f in
  with_fallback (lk_suffix lk) (lk_direct lk) (lk_direct_s lk) = None -> regform lk = Some (e, Ok rt) ->
  exists l ll, e_lt e = Some l /\ (if lk_has_ld lk then load_latency QNum m rt else Ok 0%Q) = Ok ll /\
    (c_lat c == l + ll)%Q /\ c_lat_wo c = l.
Proof.
  intros gi grt m tb f mn r c e rt Hf Hm Hs Ho lk H1 H2.
  exact (Props.C08.compose_latency_rows m tb (memq_of f) lk e rt c H1 H2 (gen_rows_ok QNum gi grt m tb f mn r c Hf Hm Hs Ho)).
Qed.
Print Assumptions C08gen_compose_latency.

Theorem C08gen_compose_throughput : forall gi grt (m : mach (T:=Q)) tb f mn r c e rt,
  fresh_form f -> fo_mnemonic f = Some mn -> spec_cost QNum gi grt m tb f = Some r ->
  observe (g_assign_tp_lt QNum m tb gi grt f) = Ok c ->
  let lk := lookup_of gi grt (m_isa m) mn f in
  with_fallback (lk_suffix lk) (lk_direct lk) (lk_direct_s lk) = None -> regform lk = Some (e, Ok rt) ->
  exists lk' d t, fill_rows m tb (memq_of f) rt lk = Some lk' /\ data_pressure QNum m lk' rt = Ok d /\ e_tp e = Some t /\
    (t <= c_tp c)%Q /\ (forall y, In y d -> (y <= c_tp c)%Q) /\ (c_tp c = t \/ In (c_tp c) d).
Proof.
  intros gi grt m tb f mn r c e rt Hf Hm Hs Ho lk H1 H2.
  destruct (Props.C08.compose_throughput_rows m tb (memq_of f) lk e rt c H1 H2 (gen_rows_ok QNum gi grt m tb f mn r c Hf Hm Hs Ho))
    as [lk' [d [t [A [_ [_ [B [C [D [E F]]]]]]]]]].
  exists lk', d, t. repeat split; assumption.
Qed.
Print Assumptions C08gen_compose_throughput.

Theorem C08gen_compose_not_unknown : forall {T} (N : NumOps T) gi grt (m : mach (T:=T)) tb f mn r c e rtr,
  fresh_form f -> fo_mnemonic f = Some mn -> spec_cost N gi grt m tb f = Some r ->
  observe (g_assign_tp_lt N m tb gi grt f) = Ok c ->
  let lk := lookup_of gi grt (m_isa m) mn f in
  with_fallback (lk_suffix lk) (lk_direct lk) (lk_direct_s lk) = None -> regform lk = Some (e, rtr) ->
  ~ In F_TP_UNKWN (c_flags c) /\ ~ In F_LT_UNKWN (c_flags c).
Proof.
  intros T N gi grt m tb f mn r c e rtr Hf Hm Hs Ho lk H1 H2.
  exact (Props.C08.compose_not_unknown_rows N m tb (memq_of f) lk e rtr c H1 H2 (gen_rows_ok N gi grt m tb f mn r c Hf Hm Hs Ho)).
Qed.
Print Assumptions C08gen_compose_not_unknown.

(* neither form: the regenerated code never raises, flags both unknowns, one zero per port, zero latency / throughput, no micro-ops *)
Theorem C08gen_unknown_zero : forall {T} (N : NumOps T) gi grt (m : mach (T:=T)) tb f mn,
  fresh_form f -> fo_mnemonic f = Some mn -> empty_mnemonic_raises gi m f = false ->
  let lk := lookup_of gi grt (m_isa m) mn f in
  with_fallback (lk_suffix lk) (lk_direct lk) (lk_direct_s lk) = None -> regform lk = None ->
  exists c, observe (g_assign_tp_lt N m tb gi grt f) = Ok c /\
    In F_TP_UNKWN (c_flags c) /\ In F_LT_UNKWN (c_flags c) /\
    c_pp c = map (fun _ => n0 N) (m_ports m) /\ c_lat c = n0 N /\ c_lat_wo c = n0 N /\ c_tp c = n0 N /\ c_uops c = PList [].
Proof.
  intros T N gi grt m tb f mn Hf Hm He lk H1 H2.
  destruct (Props.C08.unknown_zero_rows N m tb (memq_of f) lk H1 H2) as [c [Hc P]].
  exists c. split; [|exact P]. apply gen_assign_tp_lt_main; [exact Hf|].
  unfold spec_cost. rewrite He. unfold line_of. rewrite Hm. exact Hc.
Qed.
Print Assumptions C08gen_unknown_zero.

(* ---------------------------------------------------------------------- non-vacuity: `addq $1, 8(%rax)` on a 3-port machine *)
Definition ex_m : mach (T:=Q) := mkmach X86 ["0"; "1"; "2D"]%string [("gpr"%string, Some 4%Q)] None None.
Definition ex_tb : tables (T:=Q) := mktables [] [(1%Q, ["2D"]%string)] [] [(1%Q, ["1"]%string)].
Definition ex_reg : pyentry Q := mkpyentry (Some (1#2)%Q) (Some 1%Q) (UList [(1%Q, ["0"; "1"]%string)]) [PImm (Some "int"%string); PReg (R (Some "gpr"%string) None None None)].
Definition ex_gi (n : string) (ops : list operand) : option (pyentry Q) :=
  if andb (String.eqb n "add") (existsb (fun o => match o with OWild => true | _ => false end) ops) then Some ex_reg else None.
Definition ex_grt (p : pattern) : res string := match p with PReg r => match r_name r with Some n => Ok n | None => Err EValue end | _ => Err EValue end.
Definition ex_mem : memop := M (Some (R (Some "rax"%string) None None None)) (OImm (IVInt 8)) None 1 false PostFalse.
Definition ex_form : pyform Q :=
  mkpyform (Some "addq"%string) [OImmediate (Some "int"%string) (IVInt 1) false; OMem ex_mem] [F_HAS_LD; F_HAS_ST]
           [OImmediate (Some "int"%string) (IVInt 1) false] [] [OMem ex_mem] [] (PList []) None None None 0 0.
Example C08gen_nonvacuous :
  fresh_form ex_form /\
  spec_cost QNum ex_gi ex_grt ex_m ex_tb ex_form = Some (observe (g_assign_tp_lt QNum ex_m ex_tb ex_gi ex_grt ex_form)) /\
  match observe (g_assign_tp_lt QNum ex_m ex_tb ex_gi ex_grt ex_form) with
  | Ok c => andb (Qeq_bool (c_lat c) 5) (andb (Qeq_bool (c_lat_wo c) 1) (andb (Qeq_bool (c_tp c) 1)
            (andb (forallb (fun p => Qeq_bool (fst p) (snd p)) (combine (c_pp c) [(1#2); (3#2); 1]%Q))
            (match c_uops c, c_flags c with
             | PList [(_, ["0"; "1"]); (_, ["2D"]); (_, ["1"])]%string, [F_HAS_LD; F_HAS_ST] => true | _, _ => false end))))
  | Err _ => false
  end = true.
Proof.
  split; [|split; vm_compute; reflexivity].
  unfold fresh_form. cbn. repeat split.
  - constructor; [cbn; intros [H|[]]; discriminate|]. constructor; [intros []|constructor].
  - intros x [<-|[<-|[]]]; [left|right]; reflexivity.
  - discriminate.
Qed.
