(* Property C04, translation tie: the definition REGENERATED on every run by tools/gen_lcd.py from the current source of
   KernelDG.get_critical_path (Gen/KdgCrit.v) is extensionally equal -- every numeric instance, every graph, every kernel, every
   behaviour of the two networkx algorithms, error outcomes included -- to the functional reading Model/CritImpl.cp_model.
   Proofs/CritImpl.v says what cp_model computes and connects it with the certificate theory of Proofs/CritCert.v; the theorems are
   restated here for the regenerated code.  Compiled by the check (harness/lcd_gen.py), not by make. *)
From Coq Require Import ZArith List Bool String Lia.
From OV Require Import Model.Num Model.PyLcd Model.LcdPost Model.CritImpl Proofs.PyLcdFacts Gen.KdgNode Gen.KdgCrit.
Import ListNotations.
Local Open Scope list_scope.

Section Equal.
  Context {T : Type} (N : NumOps T) {I : Type} (ln : I -> Z) (lat lcp : I -> T) (set_lcp : I -> T -> I).

  Lemma node_eq : forall heap z, g_get_node_by_lineno ln heap z = node_by_lineno ln heap z.
  Proof.
    intros heap z. unfold g_get_node_by_lineno, node_by_lineno. cbv zeta.
    rewrite (py_filterM_deref (fun i => Z.eqb (ln i) z) heap). cbn [pbind].
    destruct (py_filter_idx (fun i => Z.eqb (ln i) z) heap); reflexivity.
  Qed.

  (* the three loops that build the graph handed to dag_longest_path never raise: they are the folds of sink_graph *)
  Lemma sink_graph_loops (self_dg : nxg T) heap (F1 : node * node * T -> nxg T -> pres (nxg T)) (F2 : nat -> nxg T -> pres (nxg T)) :
    (forall e g, F1 e g = POk (add_merged N self_dg g e)) ->
    (forall r i g, nth_error heap r = Some i -> F2 r g = POk (nx_add_edge g (Line (ln i)) (Line sink) (lat i))) ->
    (g1 <- py_for (nx_edges_data self_dg) (nx_add_nodes_from nx_empty (nx_nodes self_dg)) F1 ;; py_for (py_refs heap) g1 F2)
    = POk (sink_graph N ln lat self_dg heap).
  Proof.
    intros H1 H2. rewrite (py_for_fold F1 (add_merged N self_dg) H1). cbn [pbind].
    rewrite (py_for_refs F2 (fun g i => nx_add_edge g (Line (ln i)) (Line sink) (lat i)) heap _ H2). reflexivity.
  Qed.

  Theorem g_get_critical_path_eq is_dag longest self_dg heap :
    g_get_critical_path N ln lat lcp set_lcp is_dag longest self_dg heap = cp_model N ln lat lcp set_lcp is_dag longest self_dg heap.
  Proof.
    unfold g_get_critical_path, cp_model. cbv zeta.
    rewrite (py_mapM_deref lat heap). cbn [pbind]. apply pbind_ext; [reflexivity|]. intros mx.
    destruct (is_dag self_dg); [|reflexivity].
    (* the sink graph *)
    rewrite <- pbind_assoc.
    rewrite (sink_graph_loops self_dg heap).
    2:{ intros [[s d] w] g. unfold add_merged. cbn [fst snd]. destruct (node_is_load_of s d); [|reflexivity].
        rewrite (py_for_fold _ (fun g2 e2 => nx_add_edge g2 s (snd (fst e2)) (nadd N w (snd e2)))) by (intros [[a b] c] g2; reflexivity).
        reflexivity. }
    2:{ intros r i g Hr. rewrite (py_deref_some heap r i Hr). reflexivity. }
    cbn [pbind]. set (lp0 := longest (sink_graph N ln lat self_dg heap)).
    (* the fix-up of the path *)
    unfold fix_path. rewrite !pbind_assoc. apply pbind_ext; [reflexivity|]. intros last.
    change (- (1))%Z with sink.
    set (lp1 := if node_eq_int last sink then py_drop_last lp0 else lp0).
    assert (E1 : (if node_eq_int last sink then POk (py_drop_last lp0) else POk lp0) = POk lp1) by (unfold lp1; destruct (node_eq_int last sink); reflexivity).
    rewrite E1. cbn [pbind]. rewrite pbind_assoc.
    destruct (py_nth lp1 0) as [first|e] eqn:Ef; [|reflexivity]. cbn [pbind].
    set (lp := if negb (node_eq_int first (node_int first)) then py_list_insert lp1 1 (Line (node_int first)) else lp1).
    assert (E2 : (if negb (node_eq_int first (node_int first))
                  then POk (py_list_insert lp1 1 (Line (node_int first))) else POk lp1) = POk lp).
    { unfold lp. destruct (negb (node_eq_int first (node_int first))); reflexivity. }
    rewrite E2. cbn [pbind].
    (* latency_cp := 0 along the path *)
    apply pbind_ext.
    { apply py_for_ext. intros nd h. unfold zero_step, set_cp. rewrite node_eq. apply pbind_ext; [reflexivity|]. intros r.
      apply pbind_ext; [reflexivity|]. intros i. apply pbind_ok_id. }
    intros heap1.
    (* accumulation along the path *)
    apply pbind_ext.
    { apply py_for_ext. intros [s d] [h pl]. unfold acc_step. cbn [fst snd]. rewrite node_eq. apply pbind_ext; [reflexivity|]. intros r.
      apply pbind_ext; [reflexivity|]. intros i. destruct (nx_edge_latency self_dg s d) as [w|e]; [|reflexivity]. cbn [pbind].
      destruct (py_heap_set h r (set_lcp i (nadd N (lcp i) w))); reflexivity. }
    intros [h pl]. cbn [fst snd].
    apply pbind_ext; [reflexivity|]. intros lst. rewrite node_eq. apply pbind_ext; [reflexivity|]. intros r.
    unfold set_cp. rewrite pbind_assoc.
    destruct (py_deref h r) as [i|e]; [|reflexivity]. cbn [pbind].
    apply pbind_ext; [reflexivity|]. intros heap2. apply pbind_ext; [reflexivity|]. intros i2. apply pbind_ext; [reflexivity|]. intros im.
    destruct (nltb N (nadd N pl (lat i2)) (lat im)).
    - rewrite pbind_assoc. destruct (py_deref heap2 mx) as [i3|e]; [|reflexivity]. cbn [pbind]. reflexivity.
    - reflexivity.
  Qed.
End Equal.

(* ================================================================== property theorems *)
From Coq Require Import QArith.
From OV Require Import Model.Deps Model.CritPath Proofs.CritPathQ Proofs.CritCert Proofs.CritImpl Proofs.CritMax.

(* ---- (T) the regenerated get_critical_path IS the functional reading Model/CritImpl.cp_model: every numeric instance, every graph,
   every kernel, every behaviour of is_directed_acyclic_graph / dag_longest_path, errors included *)
Theorem C04gen_get_critical_path_is_model : forall (T : Type) (N : NumOps T) (I : Type) (ln : I -> Z) (lat lcp : I -> T) (set_lcp : I -> T -> I)
    is_dag longest self_dg heap,
  g_get_critical_path N ln lat lcp set_lcp is_dag longest self_dg heap = cp_model N ln lat lcp set_lcp is_dag longest self_dg heap.
Proof. intros. apply g_get_critical_path_eq. Qed.
Print Assumptions C04gen_get_critical_path_is_model.

(* ---- (C1) certificate for the REGENERATED code, unconditional in networkx: WHENEVER the translated get_critical_path returns, the lines
   it reports with their latency_cp pass cert_ok on self.dg (one edge per node pair, edges end in instruction nodes and point forward
   in the kernel, distinct non-negative line numbers): they are a dependency chain, every cell is the weight of the edge to the next
   line (the first may carry the load stage of its line in addition), the last cell is the latency of its instruction *)
Theorem C04gen_reported_cells_pass_certificate : forall (I : Type) (ln : I -> Z) (lat lcp : I -> Q) (set_lcp : I -> Q -> I),
  (forall i v, ln (set_lcp i v) = ln i) -> (forall i v, lat (set_lcp i v) = lat i) -> (forall i v, lcp (set_lcp i v) = v) ->
  forall (self_dg : nxg Q) (heap : list I) is_dag longest refs heap',
  NoDup (map ekey (nx_edges_data self_dg)) ->
  (forall u v w, In (u, v, w) (nx_edges_data self_dg) -> (exists b, v = Line b /\ (0 <= b)%Z) /\ (0 <= node_int u)%Z) ->
  NoDup (map ln heap) -> (forall i, In i heap -> (0 <= ln i)%Z) ->
  (forall a b w, In (Line a, Line b, w) (nx_edges_data self_dg) -> (pos (map ln heap) a < pos (map ln heap) b)%nat) ->
  g_get_critical_path QNum ln lat lcp set_lcp is_dag longest self_dg heap = POk (refs, heap') ->
  cert_ok QNum (to_edges self_dg) (lookup (kernel_of ln lat heap)) true (cells_of ln lcp refs heap') = true /\
  map ln heap' = map ln heap /\ map lat heap' = map lat heap.
Proof.
  intros I ln lat lcp set_lcp L1 L2 L3 self_dg heap is_dag longest refs heap' G1 G2 ND NN G3 H.
  rewrite g_get_critical_path_eq in H.
  exact (cp_model_certificate ln lat lcp set_lcp L1 L2 L3 self_dg G1 G2 heap ND NN G3 is_dag longest refs heap' H).
Qed.
Print Assumptions C04gen_reported_cells_pass_certificate.

(* ---- (C2) Props/C04.v C04_certificate_sound for the REGENERATED code: if, in addition, the reported cells add up to cp_opt -- the one
   comparison the per-run certificate check still makes; it fails exactly when dag_longest_path did not return a longest path of the
   sink graph -- the reported lines are a LONGEST dependency chain of the kernel *)
Theorem C04gen_reported_path_is_longest_chain : forall (I : Type) (ln : I -> Z) (lat lcp : I -> Q) (set_lcp : I -> Q -> I),
  (forall i v, ln (set_lcp i v) = ln i) -> (forall i v, lat (set_lcp i v) = lat i) -> (forall i v, lcp (set_lcp i v) = v) ->
  forall (self_dg : nxg Q) (heap : list I) is_dag longest refs heap',
  NoDup (map ekey (nx_edges_data self_dg)) ->
  (forall u v w, In (u, v, w) (nx_edges_data self_dg) -> (exists b, v = Line b /\ (0 <= b)%Z) /\ (0 <= node_int u)%Z) ->
  NoDup (map ln heap) -> (forall i, In i heap -> (0 <= ln i)%Z) ->
  (forall a b w, In (Line a, Line b, w) (nx_edges_data self_dg) -> (pos (map ln heap) a < pos (map ln heap) b)%nat) ->
  nonneg_edges (to_edges self_dg) -> forward_ok (to_edges self_dg) [] (kernel_of ln lat heap) ->
  g_get_critical_path QNum ln lat lcp set_lcp is_dag longest self_dg heap = POk (refs, heap') ->
  cert_value QNum (cells_of ln lcp refs heap') == cp_opt QNum (to_edges self_dg) (kernel_of ln lat heap) ->
  let g := to_edges self_dg in let k := kernel_of ln lat heap in let cells := cells_of ln lcp refs heap' in
  cells_spec g (lookup k) true cells /\
  exists e l, chain g (map fst cells) e /\ In (last_of (map fst cells), l) k /\
    clen g (map fst cells) e l == cells_sum cells /\
    clen g (map fst cells) e l == cp_opt QNum g k /\
    longest_chain g k (map fst cells) e l.
Proof.
  intros I ln lat lcp set_lcp L1 L2 L3 self_dg heap is_dag longest refs heap' G1 G2 ND NN G3 Hw FO H Hsum.
  rewrite g_get_critical_path_eq in H.
  exact (cp_model_longest_chain ln lat lcp set_lcp L1 L2 L3 self_dg heap is_dag longest refs heap' G1 G2 ND NN G3 Hw FO H Hsum).
Qed.
Print Assumptions C04gen_reported_path_is_longest_chain.

(* ---- (C3) FUNCTIONAL CORRECTNESS modulo networkx: if dag_longest_path returns a path of maximal weight of the graph it is given (`longest_ok`:
   it is a path of that graph and no path of that graph weighs more) -- and the load nodes of self.dg only carry their load-stage edge, weights
   and latencies are not negative -- then, whenever the translated get_critical_path returns, the reported latency_cp cells add up to cp_opt
   and the reported lines are a longest dependency chain of the kernel.  (Proofs/CritMax.v: the look-up of the sink graph edge by edge, every
   chain of the kernel is a path of the sink graph of the same length, the cells add up to at least the weight of networkx's answer.) *)
Theorem C04gen_critical_path_is_optimal : forall (I : Type) (ln : I -> Z) (lat lcp : I -> Q) (set_lcp : I -> Q -> I),
  (forall i v, ln (set_lcp i v) = ln i) -> (forall i v, lat (set_lcp i v) = lat i) -> (forall i v, lcp (set_lcp i v) = v) ->
  forall (self_dg : nxg Q) (heap : list I) is_dag longest refs heap',
  NoDup (map ekey (nx_edges_data self_dg)) ->
  (forall u v w, In (u, v, w) (nx_edges_data self_dg) -> (exists b, v = Line b /\ (0 <= b)%Z) /\ (0 <= node_int u)%Z) ->
  (forall a v w, In (Load a, v, w) (nx_edges_data self_dg) -> v = Line a) ->
  NoDup (map ln heap) -> (forall i, In i heap -> (0 <= ln i)%Z) -> (forall i, In i heap -> 0 <= lat i) ->
  (forall a b w, In (Line a, Line b, w) (nx_edges_data self_dg) -> (pos (map ln heap) a < pos (map ln heap) b)%nat) ->
  nonneg_edges (to_edges self_dg) -> forward_ok (to_edges self_dg) [] (kernel_of ln lat heap) ->
  longest_ok (sink_graph QNum ln lat self_dg heap) (longest (sink_graph QNum ln lat self_dg heap)) ->
  g_get_critical_path QNum ln lat lcp set_lcp is_dag longest self_dg heap = POk (refs, heap') ->
  let g := to_edges self_dg in let k := kernel_of ln lat heap in let cells := cells_of ln lcp refs heap' in
  cert_value QNum cells == cp_opt QNum g k /\
  cells_spec g (lookup k) true cells /\
  exists e l, chain g (map fst cells) e /\ In (last_of (map fst cells), l) k /\
    clen g (map fst cells) e l == cells_sum cells /\
    clen g (map fst cells) e l == cp_opt QNum g k /\
    longest_chain g k (map fst cells) e l.
Proof.
  intros I ln lat lcp set_lcp L1 L2 L3 self_dg heap is_dag longest refs heap' G1 G2 G4 ND NN LN G3 Hw FO HL H. cbv zeta.
  rewrite g_get_critical_path_eq in H.
  pose proof (cp_model_optimal ln lat lcp set_lcp L1 L2 L3 self_dg G1 G2 G4 heap ND NN LN G3 Hw FO is_dag longest refs heap' HL H) as Hsum.
  split; [exact Hsum|].
  exact (cp_model_longest_chain ln lat lcp set_lcp L1 L2 L3 self_dg heap is_dag longest refs heap' G1 G2 ND NN G3 Hw FO H Hsum).
Qed.
Print Assumptions C04gen_critical_path_is_optimal.

(* ---------------------------------------------------------------- non-vacuity: Props/C04.v's g4 / k4 as an nx container and a heap
   (line, latency, latency_cp); line 1 has a load stage (4 cy); dag_longest_path answers Load 1 -> 2 -> 3 -> 4 -> sink *)
Definition ex_I := (Z * Q * Q)%type.
Definition ex_ln (i : ex_I) : Z := fst (fst i).
Definition ex_lat (i : ex_I) : Q := snd (fst i).
Definition ex_lcp (i : ex_I) : Q := snd i.
Definition ex_set (i : ex_I) (v : Q) : ex_I := (fst i, v).
Definition ex_dg : nxg Q :=
  [(Line 1%Z, [(Line 2%Z, 2%Q); (Line 3%Z, 2%Q)]); (Load 1%Z, [(Line 1%Z, 4%Q)]); (Line 2%Z, [(Line 3%Z, 3%Q)]); (Line 3%Z, [(Line 4%Z, 1%Q)]);
   (Line 4%Z, [])].
Definition ex_heap : list ex_I := [(1%Z, 5%Q, 0%Q); (2%Z, 3%Q, 0%Q); (3%Z, 1%Q, 0%Q); (4%Z, 2%Q, 7%Q)].
Definition ex_longest (_ : nxg Q) : list node := [Load 1%Z; Line 2%Z; Line 3%Z; Line 4%Z; Line (-1)%Z].
Definition ex_heap' : list ex_I := [(1%Z, 5%Q, 6%Q); (2%Z, 3%Q, 3%Q); (3%Z, 1%Q, 1%Q); (4%Z, 2%Q, 2%Q)].
Example C04gen_nonvacuous :
  g_get_critical_path QNum ex_ln ex_lat ex_lcp ex_set (fun _ => true) ex_longest ex_dg ex_heap = POk ([0; 1; 2; 3]%nat, ex_heap') /\
  (* the graph handed to dag_longest_path: the load stage of line 1 is folded into the edges leaving line 1; every line -> sink *)
  nx_edges_data (sink_graph QNum ex_ln ex_lat ex_dg ex_heap) =
    [(Line 1%Z, Line 2%Z, 2%Q); (Line 1%Z, Line 3%Z, 2%Q); (Line 1%Z, Line (-1)%Z, 5%Q); (Load 1%Z, Line 2%Z, 6%Q); (Load 1%Z, Line 3%Z, 6%Q);
     (Line 2%Z, Line 3%Z, 3%Q); (Line 2%Z, Line (-1)%Z, 3%Q); (Line 3%Z, Line 4%Z, 1%Q); (Line 3%Z, Line (-1)%Z, 1%Q); (Line 4%Z, Line (-1)%Z, 2%Q)] /\
  to_edges ex_dg = [((1%nat, false), 2%nat, 2%Q); ((1%nat, false), 3%nat, 2%Q); ((1%nat, true), 1%nat, 4%Q); ((2%nat, false), 3%nat, 3%Q);
                    ((3%nat, false), 4%nat, 1%Q)] /\
  cert_ok QNum (to_edges ex_dg) (lookup (kernel_of ex_ln ex_lat ex_heap)) true (cells_of ex_ln ex_lcp [0; 1; 2; 3]%nat ex_heap') = true /\
  cert_value QNum (cells_of ex_ln ex_lcp [0; 1; 2; 3]%nat ex_heap') == cp_opt QNum (to_edges ex_dg) (kernel_of ex_ln ex_lat ex_heap) /\
  (* a cyclic graph: NotImplementedError; an answer of dag_longest_path that is not a path of self.dg: KeyError *)
  g_get_critical_path QNum ex_ln ex_lat ex_lcp ex_set (fun _ => false) ex_longest ex_dg ex_heap = PErr PNotImplementedError /\
  g_get_critical_path QNum ex_ln ex_lat ex_lcp ex_set (fun _ => true) (fun _ => [Line 2%Z; Line 4%Z; Line (-1)%Z]) ex_dg ex_heap = PErr PKeyError.
Proof. repeat split; vm_compute; reflexivity. Qed.

(* the hypotheses of C04gen_reported_cells_pass_certificate hold for this example *)
Example C04gen_nonvacuous_hypotheses :
  NoDup (map ekey (nx_edges_data ex_dg)) /\
  (forall u v w, In (u, v, w) (nx_edges_data ex_dg) -> (exists b, v = Line b /\ (0 <= b)%Z) /\ (0 <= node_int u)%Z) /\
  NoDup (map ex_ln ex_heap) /\ (forall i, In i ex_heap -> (0 <= ex_ln i)%Z) /\
  (forall a b w, In (Line a, Line b, w) (nx_edges_data ex_dg) -> (pos (map ex_ln ex_heap) a < pos (map ex_ln ex_heap) b)%nat).
Proof.
  split; [|split; [|split; [|split]]].
  - cbn. repeat constructor; cbn; intuition discriminate.
  - intros u v w H. cbn in H. repeat (destruct H as [H|H]; [inversion H; subst; split; [eexists; split; [reflexivity | lia] | cbn; lia]|]). contradiction.
  - cbn. repeat constructor; cbn; intuition discriminate.
  - intros i H. cbn in H. repeat (destruct H as [H|H]; [subst; cbn; lia|]). contradiction.
  - intros a b w H. cbn in H. repeat (destruct H as [H|H]; [inversion H; subst; cbn; lia|]). contradiction.
Qed.
