(* Property C04, translation tie: the definition REGENERATED on every run by tools/gen_lcd.py from the current source of
   KernelDG.get_critical_path (Gen/KdgCrit.v) is extensionally equal -- every numeric instance, every graph, every kernel, every
   behaviour of the two networkx algorithms, error outcomes included -- to the functional reading Model/CritImpl.cp_model.
   Proofs/CritImpl.v says what cp_model computes and connects it with the certificate theory of Proofs/CritCert.v; the theorems are
   restated here for the regenerated code.  Compiled by the check (harness/lcd_gen.py), not by make. *)
From Coq Require Import ZArith List Bool String Lia.
From OV Require Import Model.Num Model.PyLcd Model.LcdPost Model.CritImpl Proofs.PyLcdFacts Gen.KdgNode Gen.KdgCrit.
Import ListNotations.
Local Open Scope list_scope.

Section Equal.
  Context {T : Type} (N : NumOps T) {I : Type} (ln : I -> Z) (lat lcp : I -> T) (set_lcp : I -> T -> I).

  Lemma node_eq : forall heap z, g_get_node_by_lineno ln heap z = node_by_lineno ln heap z.
  Proof.
    intros heap z. unfold g_get_node_by_lineno, node_by_lineno. cbv zeta.
    rewrite (py_filterM_deref (fun i => Z.eqb (ln i) z) heap). cbn [pbind].
    destruct (py_filter_idx (fun i => Z.eqb (ln i) z) heap); reflexivity.
  Qed.

  (* the three loops that build the graph handed to dag_longest_path never raise: they are the folds of sink_graph *)
  Lemma sink_graph_loops (self_dg : nxg T) heap (F1 : node * node * T -> nxg T -> pres (nxg T)) (F2 : nat -> nxg T -> pres (nxg T)) :
    (forall e g, F1 e g = POk (add_merged N self_dg g e)) ->
    (forall r i g, nth_error heap r = Some i -> F2 r g = POk (nx_add_edge g (Line (ln i)) (Line sink) (lat i))) ->
    (g1 <- py_for (nx_edges_data self_dg) (nx_add_nodes_from nx_empty (nx_nodes self_dg)) F1 ;; py_for (py_refs heap) g1 F2)
    = POk (sink_graph N ln lat self_dg heap).
  Proof.
    intros H1 H2. rewrite (py_for_fold F1 (add_merged N self_dg) H1). cbn [pbind].
    rewrite (py_for_refs F2 (fun g i => nx_add_edge g (Line (ln i)) (Line sink) (lat i)) heap _ H2). reflexivity.
  Qed.

  Theorem g_get_critical_path_eq is_dag longest self_dg heap :
    g_get_critical_path N ln lat lcp set_lcp is_dag longest self_dg heap = cp_model N ln lat lcp set_lcp is_dag longest self_dg heap.
  Proof.
    unfold g_get_critical_path, cp_model. cbv zeta.
    rewrite (py_mapM_deref lat heap). cbn [pbind]. apply pbind_ext; [reflexivity|]. intros mx.
    destruct (is_dag self_dg); [|reflexivity].
    (* the sink graph *)
    rewrite <- pbind_assoc.
    rewrite (sink_graph_loops self_dg heap).
    2:{ intros [[s d] w] g. unfold add_merged. cbn [fst snd]. destruct (node_is_load_of s d); [|reflexivity].
        rewrite (py_for_fold _ (fun g2 e2 => nx_add_edge g2 s (snd (fst e2)) (nadd N w (snd e2)))) by (intros [[a b] c] g2; reflexivity).
        reflexivity. }
    2:{ intros r i g Hr. rewrite (py_deref_some heap r i Hr). reflexivity. }
    cbn [pbind]. set (lp0 := longest (sink_graph N ln lat self_dg heap)).
    (* the fix-up of the path *)
    unfold fix_path. rewrite !pbind_assoc. apply pbind_ext; [reflexivity|]. intros last.
    change (- (1))%Z with sink.
    set (lp1 := if node_eq_int last sink then py_drop_last lp0 else lp0).
    assert (E1 : (if node_eq_int last sink then POk (py_drop_last lp0) else POk lp0) = POk lp1) by (unfold lp1; destruct (node_eq_int last sink); reflexivity).
    rewrite E1. cbn [pbind]. rewrite pbind_assoc.
    destruct (py_nth lp1 0) as [first|e] eqn:Ef; [|reflexivity]. cbn [pbind].
    set (lp := if negb (node_eq_int first (node_int first)) then py_list_insert lp1 1 (Line (node_int first)) else lp1).
    assert (E2 : (if negb (node_eq_int first (node_int first))
                  then POk (py_list_insert lp1 1 (Line (node_int first))) else POk lp1) = POk lp).
    { unfold lp. destruct (negb (node_eq_int first (node_int first))); reflexivity. }
    rewrite E2. cbn [pbind].
    (* latency_cp := 0 along the path *)
    apply pbind_ext.
    { apply py_for_ext. intros nd h. unfold zero_step, set_cp. rewrite node_eq. apply pbind_ext; [reflexivity|]. intros r.
      apply pbind_ext; [reflexivity|]. intros i. apply pbind_ok_id. }
    intros heap1.
    (* accumulation along the path *)
    apply pbind_ext.
    { apply py_for_ext. intros [s d] [h pl]. unfold acc_step. cbn [fst snd]. rewrite node_eq. apply pbind_ext; [reflexivity|]. intros r.
      apply pbind_ext; [reflexivity|]. intros i. destruct (nx_edge_latency self_dg s d) as [w|e]; [|reflexivity]. cbn [pbind].
      destruct (py_heap_set h r (set_lcp i (nadd N (lcp i) w))); reflexivity. }
    intros [h pl]. cbn [fst snd].
    apply pbind_ext; [reflexivity|]. intros lst. rewrite node_eq. apply pbind_ext; [reflexivity|]. intros r.
    unfold set_cp. rewrite pbind_assoc.
    destruct (py_deref h r) as [i|e]; [|reflexivity]. cbn [pbind].
    apply pbind_ext; [reflexivity|]. intros heap2. apply pbind_ext; [reflexivity|]. intros i2. apply pbind_ext; [reflexivity|]. intros im.
    destruct (nltb N (nadd N pl (lat i2)) (lat im)).
    - rewrite pbind_assoc. destruct (py_deref heap2 mx) as [i3|e]; [|reflexivity]. cbn [pbind]. reflexivity.
    - reflexivity.
  Qed.
End Equal.
