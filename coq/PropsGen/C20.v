(* C20 -- property theorems about the functions translated from the CURRENT source
   (Gen/Import.v, regenerated on every run), over exact rationals, and the refutation witnesses
   of the code as found.  Lemmas: PropsGen/C20Lemmas.v; file-format theorems: Props/C20.v. *)
From Coq Require Import String Ascii List Bool ZArith QArith Qround Qabs.
From OV Require Import Model.PyString Model.ImportPre Model.Import Proofs.Import Gen.Import PropsGen.C20Lemmas.
Import ListNotations.
Open Scope Q_scope.

(* ------------------------------------------------------------------ throughput *)
(* in_tp_window n m  :=  19/(20n) <= m <= 21/(20n)   i.e. 0.95/n <= m <= 1.05/n (tp_window_meaning)
   snap_tp n         :=  round(1/n, 5), ties to even *)
Theorem tp_snap_sound : forall m v, validate m "tp" = Some v ->
  exists n : positive, (n <= 10)%positive /\ v = snap_tp n /\ in_tp_window n m.
Proof. exact tp_sound. Qed.
Print Assumptions tp_snap_sound.

Theorem tp_snap_complete : forall n m, (n <= 10)%positive -> in_tp_window n m -> validate m "tp" = Some (snap_tp n).
Proof. exact tp_complete. Qed.
Print Assumptions tp_snap_complete.

Theorem tp_windows_disjoint : forall n n' m, (n <= 10)%positive -> (n' <= 10)%positive ->
  in_tp_window n m -> in_tp_window n' m -> n = n'.
Proof. exact windows_disjoint. Qed.
Print Assumptions tp_windows_disjoint.

Theorem tp_snap_reject : forall m, (forall n : positive, (n <= 10)%positive -> ~ in_tp_window n m) -> validate m "tp" = None.
Proof. exact tp_reject. Qed.
Print Assumptions tp_snap_reject.

Theorem tp_window_is_5_percent : forall n : positive,
  (19 # (20 * n)) == (95 # 100) * (1 # n) /\ (21 # (20 * n)) == (105 # 100) * (1 # n).
Proof. exact tp_window_meaning. Qed.
Print Assumptions tp_window_is_5_percent.

Theorem tp_snapped_value_close : forall n : positive, (n <= 10)%positive -> Qabs (snap_tp n - (1 # n)) <= 1 # 200000.
Proof. exact snap_tp_close. Qed.
Print Assumptions tp_snapped_value_close.

(* non-vacuity: 0.334 snaps to 0.33333; 0.36 and 2.0 are rejected *)
Example tp_examples :
  validate (334 # 1000) "tp" = Some (33333 # 100000) /\ in_tp_window 3 (334 # 1000) /\
  validate (36 # 100) "tp" = None /\ validate 2 "tp" = None /\ validate (105 # 1000) "tp" = Some (10000 # 100000).
Proof. vm_compute. repeat split; intro X; discriminate X. Qed.

(* ------------------------------------------------------------------ latency *)
(* within5 m v := v - v/20 <= m <= v + v/20 ;  qround = nearest integer, ties to even *)
Theorem lt_snap_sound : forall m v, validate m "lt" = Some v ->
  v = inject_Z (qround m) /\ 0 <= m /\ within5 m v.
Proof. exact lt_sound. Qed.
Print Assumptions lt_snap_sound.

Theorem lt_snap_complete : forall m (j : Z), within5 m (inject_Z j) -> validate m "lt" = Some (inject_Z (qround m)).
Proof. exact lt_complete. Qed.
Print Assumptions lt_snap_complete.

Theorem lt_snap_reject : forall m, (forall j : Z, ~ within5 m (inject_Z j)) -> validate m "lt" = None.
Proof. exact lt_reject. Qed.
Print Assumptions lt_snap_reject.

Example lt_examples :
  validate (4013 # 1000) "lt" = Some 4 /\ within5 (4013 # 1000) 4 /\
  validate (43 # 10) "lt" = None /\ validate (21 # 2) "lt" = Some 10 /\ validate (19 # 2) "lt" = Some 10 /\
  validate 0 "lt" = Some 0 /\ validate (-1) "lt" = None /\ validate (1 # 2) "lt" = None.
Proof. vm_compute. repeat split; intro X; discriminate X. Qed.

(* ------------------------------------------------------------------ operand codes *)
(* doc_x86 / doc_a64: every documented code (flag letters of a memory operand in ANY order,
   without repetition) with the DB pattern the README describes -- finite tables. *)
Theorem decode_table_x86 : forall c p, In (c, p) doc_x86 -> g_create_db_operand_x86 c = Some p.
Proof. exact (table_ok_spec _ _ decode_x86_ok). Qed.
Print Assumptions decode_table_x86.

Theorem decode_table_a64 : forall c p, In (c, p) doc_a64 -> g_create_db_operand_aarch64 c = Some p.
Proof. exact (table_ok_spec _ _ decode_a64_ok). Qed.
Print Assumptions decode_table_a64.

Example decode_tables_nonvacuous :
  length doc_x86 = 70%nat /\ length doc_a64 = 1970%nat /\
  In ("mbis"%string, [("class", PStr "memory"); ("base", PStr "gpr"); ("offset", PNone); ("index", PStr "gpr"); ("scale", PInt 8)]%string) doc_x86 /\
  g_create_db_operand_x86 "q" = None /\ g_create_db_operand_aarch64 "r" = None.
Proof. vm_compute. repeat split; auto 20. Qed.

(* codes OUTSIDE the documented convention that are nevertheless accepted (`in` on a str is a
   substring test): reported as observations, not part of the property's quantifier *)
Example decode_undocumented_accepted :
  g_create_db_operand_x86 "" = Some [("class", PStr "register"); ("name", PStr "mm")]%string /\
  g_create_db_operand_x86 "xy" = Some [("class", PStr "register"); ("name", PStr "xymm")]%string /\
  g_create_db_operand_x86 "rubbish" = Some [("class", PStr "register"); ("name", PStr "gpr")]%string /\
  g_create_db_operand_aarch64 "" = Some [("class", PStr "register"); ("prefix", PStr "")]%string /\
  g_create_db_operand_aarch64 "wx" = Some [("class", PStr "register"); ("prefix", PStr "wx")]%string /\
  g_create_db_operand_aarch64 "vq" = Some [("class", PStr "register"); ("prefix", PStr "v"); ("shape", PStr "q")]%string.
Proof. vm_compute. repeat split. Qed.

(* ------------------------------------------------------------------ the code as found: refutations *)
Open Scope string_scope.
Definition pf (s : string) : option Q :=
  if String.eqb s "1.0" then Some 1%Q else if String.eqb s "0.5" then Some (1 # 2)%Q
  else if String.eqb s "4.0" then Some 4%Q else if String.eqb s "0.25" then Some (1 # 4)%Q else None.
Definition imp (V : variant) (x86 ibench : bool) existing lines :=
  import_benchmark validate (if x86 then g_create_db_operand_x86 else g_create_db_operand_aarch64) pf V x86 ibench existing lines.

(* 1. an asmbench file whose last block lacks the trailing blank line: nothing at all is imported
      (IndexError) although the first block is well-formed; with the bounds check the first block survives *)
Definition w_trunc := ["a-r" ++ nl; "Latency: 4.0 cy" ++ nl; "Throughput: 0.5 cy" ++ nl; nl;
                       "b-r" ++ nl; "Latency: 4.0 cy" ++ nl; "Throughput: 0.5 cy" ++ nl].
Theorem asmbench_truncated_refuted :
  imp as_found true false [] w_trunc = Err EIndex /\
  imp repaired true false [] w_trunc
    = Ok [mkform "a" [[("class", PStr "register"); ("name", PStr "gpr")]] (Some (50000 # 100000)%Q) (Some 4%Q)] /\
  imp as_found true false [] (firstn 4 w_trunc) = imp repaired true false [] w_trunc.
Proof. vm_compute. repeat split. Qed.
Print Assumptions asmbench_truncated_refuted.

(* 2. ibench: a mnemonic that contains "TP" -- its LT line is taken for a TP line, so the valid
      latency is lost and the valid throughput is overwritten by "missing" *)
Definition w_tp := ["CVTPD2PS-x_x-TP: 1.0 (clock cycles)" ++ nl; "CVTPD2PS-x_x-LT: 4.0 (clock cycles)" ++ nl].
Theorem ibench_mode_substring_refuted :
  (exists ops, imp as_found true true [] w_tp = Ok [mkform "CVTPD2PS" ops None None]) /\
  (exists ops, imp repaired true true [] w_tp = Ok [mkform "CVTPD2PS" ops (Some (100000 # 100000)%Q) (Some 4%Q)]).
Proof. split; eexists; vm_compute; reflexivity. Qed.
Print Assumptions ibench_mode_substring_refuted.

(* 3. x86 insertion: a DB-format operand "matches" every operand, so (a) a form whose mnemonic
      exists in the shipped model with the same operand count is written into an object that is
      not dumped -- it does not appear at all; (b) a second form with the same upper-case mnemonic
      and operand count replaces the first *)
Definition w_lost := ["vxorpd-x_x_x-TP: 0.25 (clock cycles)" ++ nl].
Definition w_repl := ["FOO-x_x-TP: 1.0 (clock cycles)" ++ nl; "FOO-y_y-TP: 0.5 (clock cycles)" ++ nl].
Theorem x86_insertion_refuted :
  imp as_found true true [("VXORPD", [3; 3]%nat)] w_lost = Ok [] /\
  (exists f, imp repaired true true [("VXORPD", [3; 3]%nat)] w_lost = Ok [f]) /\
  (exists f, imp as_found true true [] w_repl = Ok [f] /\
             f_operands f = [[("class", PStr "register"); ("name", PStr "ymm")]; [("class", PStr "register"); ("name", PStr "ymm")]]) /\
  (exists f g, imp repaired true true [] w_repl = Ok [f; g]).
Proof. repeat split; repeat eexists; vm_compute; reflexivity. Qed.
Print Assumptions x86_insertion_refuted.
