(* C10 -- translator tie (T), AArch64 instruction lines, the part that does not depend on the operand lemmas: IF process_operand
   returns the embedding on every operand of the line, THEN parse_instruction / parse_line return the embedded form -- the five
   operand slots in order, `append` for one object and `extend` for the objects of a register list, mnemonic, comment.
   Compiled by the check against the regenerated PostA64Gen.v (logical path OVC), in parallel with C10postOps.v; used by C10post2.v. *)
From Coq Require Import String Ascii List Bool ZArith NArith Lia.
From OV Require Import Model.PyString Model.PyDyn Model.PyPost Model.LexA64 Model.ParseA64 Model.SyntaxA64 Model.PostA64.
From OV Require Import Proofs.PyDyn Proofs.PyPost Proofs.ParseA64Regs.
From OVC Require Import PostA64Gen C10postList.
Import ListNotations.
Open Scope string_scope.

Arguments g_process_operand : simpl never.
Arguments g_parse_instruction : simpl never.
Arguments gr_wop : simpl never.
Arguments emb_wop : simpl never.
Arguments den_wop : simpl never.
Arguments emb_operand : simpl never.
Arguments words_go : simpl never.
Arguments String.concat : simpl never.
Arguments comment_text : simpl never.

(* an operand that is not a list denotes exactly one object *)
Lemma single_obj_i : forall o, islist o = false ->
  exists c f, emb_wop o = PObj c 0 f /\ map emb_operand (den_wop o) = [PObj c 0 f] /\ key_eqb "list" c = false.
Proof.
  intros o N. destruct o as [r|els i|a b i|h n|h f|h w|w|b t c]; try discriminate;
    try (eexists; eexists; repeat split; reflexivity).
  destruct f as [neg ip fp [[[e sg] d]|] [sf|]]; eexists; eexists; repeat split; reflexivity.
Qed.
Lemma comment_join : forall c,
  match c with
  | None => True
  | Some raw => join_strs " " (map PStr (words_go raw "")) = Ok (comment_text raw)
  end.
Proof. intros [raw|]; auto. apply join_words. Qed.

(* ------------------------------------------------------------------ parse_instruction: five operand slots, then the form *)
(* one slot: `if "operandN" in result: operand = self.process_operand(result["operandN"]); operands.extend(operand) if
   isinstance(operand, list) else operands.append(operand)` followed by the rest K of the method *)
Definition slot (orc : string -> pyval -> res pyval) (result : pyval) (key : string) (acc : pyval) (K : pyval -> res pyval) : res pyval :=
  bind (py_in_lit key result) (fun t =>
  if py_truth t then
    bind (bind (py_getitem_lit result key) (fun t' => g_process_operand orc t')) (fun v =>
    if py_truth (py_isinstance v ["list"]) then bind (py_extend acc v) (fun a => K a) else bind (py_append acc v) (fun a => K a))
  else K acc).
(* the end of the method: mnemonic, comment, the InstructionForm *)
Definition finish (v_result v_operands : pyval) : res pyval :=
  bind (bind (py_getitem_lit v_result "mnemonic") (fun t297 =>
        bind (bind (py_in_lit "comment" v_result) (fun t296 =>
              if py_truth t296 then bind (py_getitem_lit v_result "comment") (fun t295 => py_join (PStr " ") t295) else Ok PNone)) (fun t298 =>
        new_InstructionForm t297 v_operands (PList []) PNone t298 PNone PNone PNone
          (PDict [("source", (PList [])); ("destination", (PList [])); ("src_dst", (PList []))]) PNone PNone PNone PNone PNone (PBool false))))
       (fun v_return_dict => Ok v_return_dict).

(* the regenerated parse_instruction IS this composition (by conversion: the translator's join continuations are the Ks) *)
Lemma instr_shape : forall orc line,
  g_parse_instruction orc line =
  bind (orc "instruction_parser" line) (fun result =>
    slot orc result "operand1" (PList []) (fun a1 => slot orc result "operand2" a1 (fun a2 => slot orc result "operand3" a2 (fun a3 =>
    slot orc result "operand4" a3 (fun a4 => slot orc result "operand5" a4 (fun a5 => finish result a5)))))).
Proof. intros. reflexivity. Qed.

Lemma slot_present : forall orc d key o acc K, assoc key d = Some (gr_wop o) -> g_process_operand orc (gr_wop o) = Ok (emb_wop o) ->
  slot orc (PDict d) key (PList acc) K = K (PList (acc ++ map emb_operand (den_wop o))%list).
Proof.
  intros orc d key o acc K A H. unfold slot. cbn [py_in_lit py_getitem_lit bind]. rewrite A. cbn [py_truth bind]. rewrite H. cbn [bind].
  destruct (islist o) eqn:N.
  - destruct o; try discriminate; reflexivity.
  - destruct (single_obj_i o N) as (c & f & E & D & L). rewrite E, D. unfold py_isinstance. cbn [existsb py_isinstance1]. rewrite L. reflexivity.
Qed.
Lemma slot_absent : forall orc d key acc K, assoc key d = None -> slot orc (PDict d) key acc K = K acc.
Proof. intros orc d key acc K A. unfold slot. cbn [py_in_lit bind]. rewrite A. reflexivity. Qed.

Definition instr_form (mn : string) (ops : list wop) (c : option string) : pyval :=
  mk_form (PStr mn) (PList (map emb_operand (flat_map den_wop ops))) PNone (ostr (den_comment c)) PNone PNone PNone.

Ltac present P o := rewrite (slot_present _ _ _ o) by (first [reflexivity | apply P; cbn [In]; tauto]).
Ltac absent := rewrite slot_absent by reflexivity.

Lemma parse_instr : forall orc line mn ops c,
  orc "instruction_parser" line = Ok (gr_instr mn ops c) -> (length ops <= 5)%nat ->
  (forall o, In o ops -> g_process_operand orc (gr_wop o) = Ok (emb_wop o)) ->
  g_parse_instruction orc line = Ok (instr_form mn ops c).
Proof.
  intros orc line mn ops c O L P. rewrite instr_shape, O. cbn [bind]. unfold gr_instr, instr_form.
  pose proof (comment_join c) as J.
  destruct ops as [|o1 [|o2 [|o3 [|o4 [|o5 [|o6 r]]]]]]; [| | | | | | cbn in L; lia]; destruct c as [raw|]; cbn [gr_comment app gr_operands].
  all: try present P o1; try present P o2; try present P o3; try present P o4; try present P o5; repeat absent.
  all: cbn [flat_map app]; rewrite ?app_nil_r, ?map_app, <- ?app_assoc.
  all: unfold finish; cbn; rewrite ?J; reflexivity.
Qed.


(* ------------------------------------------------------------------ parse_line on an instruction line, given the operands *)
Definition instr_oracle (orc : string -> pyval -> res pyval) (line : pyval) (mn : string) (ops : list wop) (c : option string) : Prop :=
  orc "comment" line = Raise ParseException /\ orc "llvm_markers" line = Raise ParseException /\ orc "label" line = Raise ParseException /\
  orc "directive" line = Raise ParseException /\ orc "instruction_parser" line = Ok (gr_instr mn ops c).

Lemma instr_line_gen : forall orc mn ops c x line ln,
  instr_oracle orc line mn ops c -> (length ops <= 5)%nat ->
  (forall o, In o ops -> g_process_operand orc (gr_wop o) = Ok (emb_wop o)) ->
  g_parse_line orc line ln = Ok (emb_form (denote (WLInstr mn ops c)) x line ln).
Proof.
  intros orc mn ops c x line ln (O1 & O2 & O3 & O4 & O5) L P.
  pose proof (parse_instr orc line mn ops c O5 L P) as PI.
  unfold instr_form in PI. unfold g_parse_line.
  run ltac:(rewrite ?O1, ?O2, ?O3, ?O4, ?PI). reflexivity.
Qed.
