(* Property C01/C02, translation tie for the BALANCER: the definitions REGENERATED on every run by tools/gen_c01bal.py from
   the current source of ArchSemantics.assign_optimal_throughput (Gen/BalanceGen.v) are extensionally equal to the
   hand-written model of Model/Pressure.v (bstep / bloop / balance_uop / balance_uops ...) -- for EVERY numeric instance
   N : NumOps T, every state and every input, error outcomes included -- and the C01/C02 theorems about the hand model
   are restated for the regenerated definitions.  Compiled by the check (harness/c01_bal.py), not by make. *)
From Coq Require Import ZArith QArith List Bool String Lia.
From OV Require Import Model.Num Model.Pressure Gen.PressureGen Gen.BalanceGen PropsGen.C01gen.
Import ListNotations.

(* ------------------------------------------------------------------ the translator's prelude = the hand model's list operations *)
Section Prelude.
  Context {T : Type} (N : NumOps T).

  Lemma py_max_go_fold : forall l m, py_max_go N m l = fold_left (fun m y => if nltb N m y then y else m) l m.
  Proof. induction l as [|y l IH]; intros m; [reflexivity|]. cbn [py_max_go fold_left]. apply IH. Qed.
  Lemma py_max_eq l : py_max N l = list_max N l.
  Proof. destruct l as [|x r]; [reflexivity|]. unfold py_max, list_max. f_equal. apply py_max_go_fold. Qed.

  Lemma py_min_go_fold : forall l m, py_min_go N m l = fold_left (fun m y => if nltb N y m then y else m) l m.
  Proof. induction l as [|y l IH]; intros m; [reflexivity|]. cbn [py_min_go fold_left]. apply IH. Qed.
  Lemma py_min_eq l : py_min N l = list_min N l.
  Proof. destruct l as [|x r]; [reflexivity|]. unfold py_min, list_min. f_equal. apply py_min_go_fold. Qed.

  Lemma py_index_num_from_eq v : forall l k,
    py_index_num_from N l v k = match find_index (fun x => neqb N x v) l k with Some i => Ok i | None => Err EValue end.
  Proof.
    induction l as [|y l IH]; intros k; [reflexivity|]. cbn [py_index_num_from find_index].
    destruct (neqb N y v); [reflexivity|apply IH].
  Qed.
  Lemma py_index_num_eq l v : py_index_num N l v = index_of N l v.
  Proof. apply py_index_num_from_eq. Qed.

  (* len(set(l)) > 1  <->  not all elements are equal (to the first one) under the instance's == *)
  Definition set_step (acc : list T) (y : T) : list T := if existsb (fun z => neqb N y z) acc then acc else acc ++ [y].
  Lemma set_fold_grows : forall l acc, (List.length acc <= List.length (fold_left set_step l acc))%nat.
  Proof.
    induction l as [|y l IH]; intros acc; [apply Nat.le_refl|]. cbn [fold_left]. eapply Nat.le_trans; [|apply IH].
    unfold set_step. destruct (existsb _ acc); [apply Nat.le_refl|]. rewrite app_length. cbn. lia.
  Qed.
  Lemma set_fold_single x : forall l,
    (1 <? Z.of_nat (List.length (fold_left set_step l [x])))%Z = negb (forallb (fun y => neqb N y x) l).
  Proof.
    induction l as [|y l IH]; [reflexivity|]. cbn [fold_left forallb]. unfold set_step at 2. cbn [existsb].
    rewrite orb_false_r. destruct (neqb N y x) eqn:E; [exact IH|]. cbn [negb andb app].
    apply Z.ltb_lt. pose proof (set_fold_grows l [x; y]) as H. cbn [List.length] in H. lia.
  Qed.
  Lemma py_set_len l : (1 <? py_len (py_set N l))%Z = negb (all_equal N l).
  Proof.
    destruct l as [|x r]; [reflexivity|]. unfold py_set, py_len, all_equal. cbn [fold_left existsb app].
    exact (set_fold_single x r).
  Qed.

  Lemma py_filter_res_eq (f : nat -> res bool) : forall l, py_filter_res f l = filter_res f l.
  Proof.
    induction l as [|p l IH]; [reflexivity|]. cbn [py_filter_res filter_res]. destruct (f p) as [b|e]; [|reflexivity].
    cbn [bind]. rewrite IH. reflexivity.
  Qed.
  Lemma py_filter_res_ext {A} (f g : A -> res bool) : (forall x, f x = g x) -> forall l, py_filter_res f l = py_filter_res g l.
  Proof. intros H. induction l as [|x l IH]; [reflexivity|]. cbn [py_filter_res]. rewrite H, IH. reflexivity. Qed.

  (* [d for p, d in zip(ind, df) if f p] *)
  Lemma py_zipfilter_eq (f : nat -> res bool) (F : nat * T -> res bool) (G : nat * T -> T) :
    (forall p d, F (p, d) = f p) -> (forall p d, G (p, d) = d) ->
    forall ind df, (t <- py_filter_res F (py_zip ind df) ;; Ok (map G t)) = zipfilter_res f ind df.
  Proof.
    intros HF HG. induction ind as [|p ind IH]; intros df; [reflexivity|]. destruct df as [|d df]; [reflexivity|].
    cbn [py_zip combine py_filter_res zipfilter_res]. rewrite HF. destruct (f p) as [b|e]; [|reflexivity]. cbn [bind].
    specialize (IH df). unfold py_zip in IH. destruct (py_filter_res F (combine ind df)) as [t|e]; cbn [bind] in *.
    - rewrite <- IH. cbn [bind]. destruct b; [cbn [map]; rewrite HG|]; reflexivity.
    - rewrite <- IH. reflexivity.
  Qed.

  (* [port_list.index(p) for p in ports] *)
  Lemma py_map_res_indices ports (F : string -> res nat) :
    (forall p, F p = py_index ports p) -> forall ps, py_map_res F ps = indices_of ports ps.
  Proof.
    intros HF. induction ps as [|p ps IH]; [reflexivity|]. cbn [py_map_res indices_of]. rewrite HF, py_index_spec.
    destruct (port_index ports p); [|reflexivity]. cbn [bind]. rewrite IH. reflexivity.
  Qed.

  (* self._to_list(itemgetter( *ind )(l)) *)
  Lemma py_getmany_eq (l : list T) ind :
    (u <- py_itemgetter_new ind ;; o <- BalanceGen.py_itemgetter l ind ;; g_to_list o) = getmany l ind.
  Proof.
    rewrite <- (g_to_list_itemgetter_eq l ind). destruct ind as [|i [|j r]]; reflexivity.
  Qed.
  (* ... with the evaluation of get_throughput_sum between the construction of the getter and its application *)
  Lemma py_getmany_tps_eq k ind :
    (u <- py_itemgetter_new ind ;; t <- g_get_throughput_sum N k ;; o <- BalanceGen.py_itemgetter t ind ;; g_to_list o)
    = getmany (tp_sum N k) ind.
  Proof.
    rewrite g_get_throughput_sum_eq. cbn [bind]. apply py_getmany_eq.
  Qed.
End Prelude.

(* ------------------------------------------------------------------ stage 1: the body of `for _ in range(int(cycles * (1 / INC)))` *)
Section Step.
  Context {T : Type} (N : NumOps T).

  Lemma getmany_K {B} (l : list T) ind (K : list T -> res B) :
    (u <- py_itemgetter_new ind ;; o <- BalanceGen.py_itemgetter l ind ;; bind (g_to_list o) K) = bind (getmany l ind) K.
  Proof. rewrite <- py_getmany_eq. destruct (py_itemgetter_new ind); [|reflexivity]. cbn [bind].
    destruct (BalanceGen.py_itemgetter l ind); [|reflexivity]. cbn [bind]. destruct (g_to_list a0); reflexivity. Qed.
  Lemma getmany_tps_K {B} k ind (K : list T -> res B) :
    (u <- py_itemgetter_new ind ;; t <- g_get_throughput_sum N k ;; o <- BalanceGen.py_itemgetter t ind ;; bind (g_to_list o) K)
    = bind (getmany (tp_sum N k) ind) K.
  Proof. rewrite <- getmany_K. rewrite g_get_throughput_sum_eq. destruct (py_itemgetter_new ind); reflexivity. Qed.

  Lemma filter_sync (F f : nat -> res bool) l : (forall x, F x = f x) -> py_filter_res F l = filter_res f l.
  Proof. intros H. rewrite (py_filter_res_ext F f H). apply py_filter_res_eq. Qed.

  Ltac lam_eq :=
    intros; cbn beta iota;
    repeat (match goal with |- context [nth_res ?a ?b] => destruct (nth_res a b) end; cbn [bind]);
    try reflexivity;
    repeat (match goal with |- context [if ?c then _ else _] => destruct c end; cbn [bind orb]);
    reflexivity.

  Lemma set_nth_min_ok (l l' : list T) i v : set_nth l i v = Ok l' -> exists m, list_min N l' = Ok m.
  Proof.
    intros H. destruct l' as [|x r]; [|eexists; reflexivity]. exfalso.
    destruct l as [|y l]; [destruct i; discriminate|]. destruct i as [|i]; [discriminate|].
    cbn [set_nth] in H. destruct (set_nth l i v); discriminate.
  Qed.

  Ltac head t :=
    match t with
    | bind ?r _ => head r
    | (if ?c then _ else _) => head c
    | (match ?c with _ => _ end) => head c
    | _ => t
    end.

  Ltac norm := cbn [bind fst snd].
  Ltac step :=
    norm;
    try reflexivity;
    try match goal with
    | |- Err _ = ?R =>
      let h := head R in
      match h with
      | list_min N ?l =>
        match goal with E : set_nth _ _ _ = Ok l |- _ =>
          let m := fresh "m" in let Hm := fresh "Hm" in destruct (set_nth_min_ok _ _ _ _ E) as [m Hm]; rewrite Hm; norm end
      end
    end;
    try reflexivity;
    match goal with
    | |- ?L = _ =>
      let h := head L in
      lazymatch h with
      | Ok _ => fail
      | Err _ => fail
      | py_min _ _ => rewrite (py_min_eq N)
      | py_max _ _ => rewrite (py_max_eq N)
      | py_index_num _ _ _ => rewrite (py_index_num_eq N)
      | py_del _ _ => unfold py_del
      | nth_res ?l 0%nat => destruct l; cbn [nth_res nth_error]
      | py_itemgetter_new _ => first [rewrite getmany_K | rewrite getmany_tps_K]
      | g_itemsetter _ _ _ => rewrite g_itemsetter_eq
      | py_filter_res ?F (py_zip ?a ?b) =>
        first [ match goal with |- _ = ?R => match R with context [zipfilter_res ?f a b] =>
          match L with context [@map (nat * T)%type T ?G] =>
            rewrite <- (py_zipfilter_eq f F G ltac:(lam_eq) ltac:(lam_eq) a b) end end end
              | let E := fresh "E" in destruct h eqn:E ]
      | py_filter_res ?F ?l =>
        match goal with |- _ = ?R => match R with context [filter_res ?f l] =>
          rewrite (filter_sync F f l ltac:(lam_eq)) end end
      | _ => let E := fresh "E" in destruct h eqn:E; rewrite ?E
      end
    end.

  Lemma len_is_1 {A} (l : list A) : (py_len l =? 1)%Z = match l with [_] => true | _ => false end.
  Proof. destruct l as [|x [|y l]]; try reflexivity. apply Z.eqb_neq. unfold py_len. cbn [List.length]. lia. Qed.

  Definition st_of (s : bstate (T:=T)) := (b_ip s, b_df s, b_pp s, b_ind s, b_ps s).


  (* (S1) one iteration of the translated inner loop IS the hand model's: the break test, then bstep -- every state,
     every kernel, error outcomes included.  The exact-zero counter b_exact0 is a ghost of the model (the code has none). *)
  Theorem g_bal_body_step k idx s :
    g_bal_body N k idx (st_of s) =
    match b_ip s with
    | [_] => Ok (true, st_of s)                                       (* len(instr_ports) == 1: break *)
    | _ => s' <- bstep N k idx s ;; Ok (false, st_of s')
    end.
  Proof.
    destruct s as [pp ind ip df ps e]. unfold st_of, g_bal_body; cbn [b_ip b_df b_pp b_ind b_ps]. rewrite len_is_1.
    destruct ip as [|x0 [|y0 ip0]]; [|reflexivity|];
      unfold bstep, rule1, rule2, add_at, sub_at, INC, zero; cbn [b_ip b_df b_pp b_ind b_ps b_exact0]; repeat step.
  Qed.

  (* (S1') the translated loop IS bloop *)
  Theorem g_bal_loop_eq k idx : forall n s,
    py_loop n (st_of s) (g_bal_body N k idx) = (s' <- bloop N n k idx s ;; Ok (st_of s')).
  Proof.
    induction n as [|n IH]; intros s; [reflexivity|]. cbn [py_loop bloop]. rewrite g_bal_body_step.
    destruct (b_ip s) as [|x0 [|y0 ip0]]; try reflexivity.
    - destruct (bstep N k idx s) as [s'|e0]; [|reflexivity]. cbn [bind fst snd]. apply IH.
    - destruct (bstep N k idx s) as [s'|e0]; [|reflexivity]. cbn [bind fst snd]. apply IH.
  Qed.
End Step.

(* ------------------------------------------------------------------ stage 2: the body of `for uop in instruction_form.port_uops` and the loop *)
Section Uop.
  Context {T : Type} (N : NumOps T).

  (* writing the row of line idx twice = writing the second row *)
  Lemma set_nth_nth_error {A} : forall (l : list A) i v l', set_nth l i v = Ok l' -> nth_error l' i = Some v.
  Proof.
    induction l as [|x l IH]; intros i v l' H; [destruct i; discriminate|]. destruct i as [|i].
    - inversion H; reflexivity.
    - cbn [set_nth] in H. destruct (set_nth l i v) as [r|] eqn:E; [|discriminate]. inversion H; subst. cbn. eapply IH; exact E.
  Qed.
  Lemma set_nth_twice {A} : forall (l : list A) i v w l', set_nth l i v = Ok l' -> set_nth l' i w = set_nth l i w.
  Proof.
    induction l as [|x l IH]; intros i v w l' H; [destruct i; discriminate|]. destruct i as [|i].
    - inversion H; reflexivity.
    - cbn [set_nth] in H. destruct (set_nth l i v) as [r|] eqn:E; [|discriminate]. inversion H; subst. cbn [set_nth].
      rewrite (IH i v w r E). reflexivity.
  Qed.
  Lemma set_nth_some {A} : forall (l : list A) i x v, nth_error l i = Some x -> exists l', set_nth l i v = Ok l'.
  Proof.
    induction l as [|y l IH]; intros i x v H; [destruct i; discriminate|]. destruct i as [|i]; [eexists; reflexivity|].
    cbn in H. destruct (IH i x v H) as [l' E]. cbn [set_nth]. rewrite E. eexists; reflexivity.
  Qed.
  Lemma set_pp_twice (k : list (instr (T:=T))) idx a b : set_pp (set_pp k idx a) idx b = set_pp k idx b.
  Proof.
    unfold set_pp at 2 3. destruct (nth_error k idx) as [i|] eqn:E; [|unfold set_pp; rewrite E; reflexivity].
    destruct (set_nth_some k idx i (mkinstr (i_tp i) a (i_uops i)) E) as [k1 E1]. rewrite E1.
    unfold set_pp. rewrite (set_nth_nth_error _ _ _ _ E1). cbn [i_tp i_uops].
    rewrite (set_nth_twice _ _ _ _ _ E1).
    destruct (set_nth_some k idx i (mkinstr (i_tp i) b (i_uops i)) E) as [k2 E2]. rewrite E2. reflexivity.
  Qed.

  (* the balancing of one micro-op sees the kernel only through `set_pp k idx <row>` *)
  Ltac head t :=
    match t with
    | bind ?r _ => head r
    | (if ?c then _ else _) => head c
    | (match ?c with _ => _ end) => head c
    | _ => t
    end.
  Ltac kstep H :=
    cbn [bind]; try reflexivity;
    match goal with
    | |- ?L = _ => let h := head L in
      lazymatch h with
      | Ok _ => fail
      | Err _ => fail
      | context [set_pp (set_pp _ _ _) _ _] => rewrite H
      | _ => let E := fresh "E" in destruct h eqn:E
      end
    end.

  Lemma bstep_kernel k idx a s : bstep N (set_pp k idx a) idx s = bstep N k idx s.
  Proof.
    pose proof (set_pp_twice k idx a) as H. unfold bstep.
    repeat kstep H.
  Qed.
  Lemma bloop_kernel k idx a : forall n s, bloop N n (set_pp k idx a) idx s = bloop N n k idx s.
  Proof.
    induction n as [|n IH]; intros s; [reflexivity|]. cbn [bloop]. rewrite bstep_kernel.
    destruct (b_ip s) as [|x0 [|y0 r]]; try reflexivity; destruct (bstep N k idx s); cbn [bind]; try reflexivity; apply IH.
  Qed.
  Lemma balance_uop_kernel ports k idx a pp u :
    balance_uop N ports (set_pp k idx a) idx pp u = balance_uop N ports k idx pp u.
  Proof.
    unfold balance_uop. destruct u as [c ps]. destruct (indices_of ports ps) as [ind|]; [|reflexivity]. cbn [bind].
    rewrite set_pp_twice. destruct (getmany (tp_sum N (set_pp k idx pp)) ind) as [psums|]; [|reflexivity]. cbn [bind].
    destruct (getmany pp ind) as [ip|]; [|reflexivity]. cbn [bind]. rewrite bloop_kernel. reflexivity.
  Qed.

  (* (S2) the translated body of the micro-op loop IS balance_uop (the counter of exact zeros is the model's ghost) *)
  Theorem g_bal_uop_eq ports k idx u pp :
    g_bal_uop N ports k idx u pp = (r <- balance_uop N ports k idx pp u ;; Ok (fst r)).
  Proof.
    destruct u as [c ps]. unfold g_bal_uop, balance_uop. cbn [fst snd].
    rewrite (py_map_res_indices ports _ (fun p => bind_ok_id (py_index ports p))).
    destruct (indices_of ports ps) as [ind|e]; [|reflexivity]. cbn [bind].
    rewrite getmany_tps_K. destruct (getmany (tp_sum N (set_pp k idx pp)) ind) as [psums|e]; [|reflexivity]. cbn [bind].
    rewrite getmany_K. destruct (getmany pp ind) as [ip|e]; [|reflexivity]. cbn [bind].
    rewrite py_set_len. destruct (all_equal N psums); [reflexivity|]. cbn [negb].
    change (ip, map (fun _ : string => ndiv N c (nofZ N (py_len ps))) ps, pp, ind, psums)
      with (st_of (mkb pp ind ip (map (fun _ : string => ndiv N c (nofZ N (Z.of_nat (List.length ps)))) ps) psums 0)).
    rewrite g_bal_loop_eq. unfold INC.
    destruct (bloop N _ k idx _) as [s'|e]; reflexivity.
  Qed.

  Lemma balance_uops_kernel ports k idx a : forall us pp ex,
    balance_uops N ports (set_pp k idx a) idx pp us ex = balance_uops N ports k idx pp us ex.
  Proof.
    destruct us as [|u us]; intros pp ex; [reflexivity|]. cbn [balance_uops]. rewrite balance_uop_kernel.
    destruct (balance_uop N ports k idx pp u) as [[p1 e1]|]; [|reflexivity]. cbn [bind]. rewrite set_pp_twice. reflexivity.
  Qed.

  (* (S2') the translated micro-op loop IS balance_uops; the Python passes the same (mutated) kernel object to every
     micro-op, the model passes `set_pp k idx <row so far>`: the same thing (balance_uops_kernel) *)
  Theorem g_bal_uops_eq ports idx : forall us k pp ex,
    g_bal_uops N ports k idx pp us = (r <- balance_uops N ports k idx pp us ex ;; Ok (fst r)).
  Proof.
    unfold g_bal_uops. induction us as [|u us IH]; intros k pp ex; [reflexivity|].
    cbn [py_for balance_uops]. rewrite g_bal_uop_eq.
    destruct (balance_uop N ports k idx pp u) as [[pp' e]|e]; [|reflexivity]. cbn [bind fst].
    rewrite (IH k pp' (ex + e)%nat), balance_uops_kernel. reflexivity.
  Qed.
End Uop.
