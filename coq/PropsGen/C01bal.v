(* Property C01/C02, translation tie for the BALANCER: the definitions REGENERATED on every run by tools/gen_c01bal.py from
   the current source of ArchSemantics.assign_optimal_throughput (Gen/BalanceGen.v) are extensionally equal to the
   hand-written model of Model/Pressure.v (bstep / bloop / balance_uop / balance_uops ...) -- for EVERY numeric instance
   N : NumOps T, every state and every input, error outcomes included -- and the C01/C02 theorems about the hand model
   are restated for the regenerated definitions.  Compiled by the check (harness/c01_bal.py), not by make. *)
From Coq Require Import ZArith QArith List Bool String Lia.
From OV Require Import Model.Num Model.Pressure Gen.PressureGen Gen.BalanceGen PropsGen.C01gen.
Import ListNotations.

(* ------------------------------------------------------------------ the translator's prelude = the hand model's list operations *)
Section Prelude.
  Context {T : Type} (N : NumOps T).

  Lemma py_max_go_fold : forall l m, py_max_go N m l = fold_left (fun m y => if nltb N m y then y else m) l m.
  Proof. induction l as [|y l IH]; intros m; [reflexivity|]. cbn [py_max_go fold_left]. apply IH. Qed.
  Lemma py_max_eq l : py_max N l = list_max N l.
  Proof. destruct l as [|x r]; [reflexivity|]. unfold py_max, list_max. f_equal. apply py_max_go_fold. Qed.

  Lemma py_min_go_fold : forall l m, py_min_go N m l = fold_left (fun m y => if nltb N y m then y else m) l m.
  Proof. induction l as [|y l IH]; intros m; [reflexivity|]. cbn [py_min_go fold_left]. apply IH. Qed.
  Lemma py_min_eq l : py_min N l = list_min N l.
  Proof. destruct l as [|x r]; [reflexivity|]. unfold py_min, list_min. f_equal. apply py_min_go_fold. Qed.

  Lemma py_index_num_from_eq v : forall l k,
    py_index_num_from N l v k = match find_index (fun x => neqb N x v) l k with Some i => Ok i | None => Err EValue end.
  Proof.
    induction l as [|y l IH]; intros k; [reflexivity|]. cbn [py_index_num_from find_index].
    destruct (neqb N y v); [reflexivity|apply IH].
  Qed.
  Lemma py_index_num_eq l v : py_index_num N l v = index_of N l v.
  Proof. apply py_index_num_from_eq. Qed.

  (* len(set(l)) > 1  <->  not all elements are equal (to the first one) under the instance's == *)
  Definition set_step (acc : list T) (y : T) : list T := if existsb (fun z => neqb N y z) acc then acc else acc ++ [y].
  Lemma set_fold_grows : forall l acc, (List.length acc <= List.length (fold_left set_step l acc))%nat.
  Proof.
    induction l as [|y l IH]; intros acc; [apply Nat.le_refl|]. cbn [fold_left]. eapply Nat.le_trans; [|apply IH].
    unfold set_step. destruct (existsb _ acc); [apply Nat.le_refl|]. rewrite app_length. cbn. lia.
  Qed.
  Lemma set_fold_single x : forall l,
    (1 <? Z.of_nat (List.length (fold_left set_step l [x])))%Z = negb (forallb (fun y => neqb N y x) l).
  Proof.
    induction l as [|y l IH]; [reflexivity|]. cbn [fold_left forallb]. unfold set_step at 2. cbn [existsb].
    rewrite orb_false_r. destruct (neqb N y x) eqn:E; [exact IH|]. cbn [negb andb app].
    apply Z.ltb_lt. pose proof (set_fold_grows l [x; y]) as H. cbn [List.length] in H. lia.
  Qed.
  Lemma py_set_len l : (1 <? py_len (py_set N l))%Z = negb (all_equal N l).
  Proof.
    destruct l as [|x r]; [reflexivity|]. unfold py_set, py_len, all_equal. cbn [fold_left existsb app].
    exact (set_fold_single x r).
  Qed.

  Lemma py_filter_res_eq (f : nat -> res bool) : forall l, py_filter_res f l = filter_res f l.
  Proof.
    induction l as [|p l IH]; [reflexivity|]. cbn [py_filter_res filter_res]. destruct (f p) as [b|e]; [|reflexivity].
    cbn [bind]. rewrite IH. reflexivity.
  Qed.
  Lemma py_filter_res_ext {A} (f g : A -> res bool) : (forall x, f x = g x) -> forall l, py_filter_res f l = py_filter_res g l.
  Proof. intros H. induction l as [|x l IH]; [reflexivity|]. cbn [py_filter_res]. rewrite H, IH. reflexivity. Qed.

  (* [d for p, d in zip(ind, df) if f p] *)
  Lemma py_zipfilter_eq (f : nat -> res bool) (F : nat * T -> res bool) (G : nat * T -> T) :
    (forall p d, F (p, d) = f p) -> (forall p d, G (p, d) = d) ->
    forall ind df, (t <- py_filter_res F (py_zip ind df) ;; Ok (map G t)) = zipfilter_res f ind df.
  Proof.
    intros HF HG. induction ind as [|p ind IH]; intros df; [reflexivity|]. destruct df as [|d df]; [reflexivity|].
    cbn [py_zip combine py_filter_res zipfilter_res]. rewrite HF. destruct (f p) as [b|e]; [|reflexivity]. cbn [bind].
    specialize (IH df). unfold py_zip in IH. destruct (py_filter_res F (combine ind df)) as [t|e]; cbn [bind] in *.
    - rewrite <- IH. cbn [bind]. destruct b; [cbn [map]; rewrite HG|]; reflexivity.
    - rewrite <- IH. reflexivity.
  Qed.

  (* [port_list.index(p) for p in ports] *)
  Lemma py_map_res_indices ports (F : string -> res nat) :
    (forall p, F p = py_index ports p) -> forall ps, py_map_res F ps = indices_of ports ps.
  Proof.
    intros HF. induction ps as [|p ps IH]; [reflexivity|]. cbn [py_map_res indices_of]. rewrite HF, py_index_spec.
    destruct (port_index ports p); [|reflexivity]. cbn [bind]. rewrite IH. reflexivity.
  Qed.

  (* self._to_list(itemgetter( *ind )(l)) *)
  Lemma py_getmany_eq (l : list T) ind :
    (u <- py_itemgetter_new ind ;; o <- BalanceGen.py_itemgetter l ind ;; g_to_list o) = getmany l ind.
  Proof.
    rewrite <- (g_to_list_itemgetter_eq l ind). destruct ind as [|i [|j r]]; reflexivity.
  Qed.
  (* ... with the evaluation of get_throughput_sum between the construction of the getter and its application *)
  Lemma py_getmany_tps_eq k ind :
    (u <- py_itemgetter_new ind ;; t <- g_get_throughput_sum N k ;; o <- BalanceGen.py_itemgetter t ind ;; g_to_list o)
    = getmany (tp_sum N k) ind.
  Proof.
    rewrite g_get_throughput_sum_eq. cbn [bind]. apply py_getmany_eq.
  Qed.
End Prelude.

(* ------------------------------------------------------------------ stage 1: the body of `for _ in range(int(cycles * (1 / INC)))` *)
Section Step.
  Context {T : Type} (N : NumOps T).

  Lemma getmany_K {B} (l : list T) ind (K : list T -> res B) :
    (u <- py_itemgetter_new ind ;; o <- BalanceGen.py_itemgetter l ind ;; bind (g_to_list o) K) = bind (getmany l ind) K.
  Proof. rewrite <- py_getmany_eq. destruct (py_itemgetter_new ind); [|reflexivity]. cbn [bind].
    destruct (BalanceGen.py_itemgetter l ind); [|reflexivity]. cbn [bind]. destruct (g_to_list a0); reflexivity. Qed.
  Lemma getmany_tps_K {B} k ind (K : list T -> res B) :
    (u <- py_itemgetter_new ind ;; t <- g_get_throughput_sum N k ;; o <- BalanceGen.py_itemgetter t ind ;; bind (g_to_list o) K)
    = bind (getmany (tp_sum N k) ind) K.
  Proof. rewrite <- getmany_K. rewrite g_get_throughput_sum_eq. destruct (py_itemgetter_new ind); reflexivity. Qed.

  Lemma filter_sync (F f : nat -> res bool) l : (forall x, F x = f x) -> py_filter_res F l = filter_res f l.
  Proof. intros H. rewrite (py_filter_res_ext F f H). apply py_filter_res_eq. Qed.

  Ltac lam_eq :=
    intros; cbn beta iota;
    repeat (match goal with |- context [nth_res ?a ?b] => destruct (nth_res a b) end; cbn [bind]);
    try reflexivity;
    repeat (match goal with |- context [if ?c then _ else _] => destruct c end; cbn [bind orb]);
    reflexivity.

  Lemma set_nth_min_ok (l l' : list T) i v : set_nth l i v = Ok l' -> exists m, list_min N l' = Ok m.
  Proof.
    intros H. destruct l' as [|x r]; [|eexists; reflexivity]. exfalso.
    destruct l as [|y l]; [destruct i; discriminate|]. destruct i as [|i]; [discriminate|].
    cbn [set_nth] in H. destruct (set_nth l i v); discriminate.
  Qed.

  Ltac head t :=
    match t with
    | bind ?r _ => head r
    | (if ?c then _ else _) => head c
    | (match ?c with _ => _ end) => head c
    | _ => t
    end.

  Ltac norm := cbn [bind fst snd].
  Ltac step :=
    norm;
    try reflexivity;
    try match goal with
    | |- Err _ = ?R =>
      let h := head R in
      match h with
      | list_min N ?l =>
        match goal with E : set_nth _ _ _ = Ok l |- _ =>
          let m := fresh "m" in let Hm := fresh "Hm" in destruct (set_nth_min_ok _ _ _ _ E) as [m Hm]; rewrite Hm; norm end
      end
    end;
    try reflexivity;
    match goal with
    | |- ?L = _ =>
      let h := head L in
      lazymatch h with
      | Ok _ => fail
      | Err _ => fail
      | py_min _ _ => rewrite (py_min_eq N)
      | py_max _ _ => rewrite (py_max_eq N)
      | py_index_num _ _ _ => rewrite (py_index_num_eq N)
      | py_del _ _ => unfold py_del
      | nth_res ?l 0%nat => destruct l; cbn [nth_res nth_error]
      | py_itemgetter_new _ => first [rewrite getmany_K | rewrite getmany_tps_K]
      | g_itemsetter _ _ _ => rewrite g_itemsetter_eq
      | py_filter_res ?F (py_zip ?a ?b) =>
        first [ match goal with |- _ = ?R => match R with context [zipfilter_res ?f a b] =>
          match L with context [@map (nat * T)%type T ?G] =>
            rewrite <- (py_zipfilter_eq f F G ltac:(lam_eq) ltac:(lam_eq) a b) end end end
              | let E := fresh "E" in destruct h eqn:E ]
      | py_filter_res ?F ?l =>
        match goal with |- _ = ?R => match R with context [filter_res ?f l] =>
          rewrite (filter_sync F f l ltac:(lam_eq)) end end
      | _ => let E := fresh "E" in destruct h eqn:E; rewrite ?E
      end
    end.

  Lemma len_is_1 {A} (l : list A) : (py_len l =? 1)%Z = match l with [_] => true | _ => false end.
  Proof. destruct l as [|x [|y l]]; try reflexivity. apply Z.eqb_neq. unfold py_len. cbn [List.length]. lia. Qed.

  Definition st_of (s : bstate (T:=T)) := (b_ip s, b_df s, b_pp s, b_ind s, b_ps s).


  (* (S1) one iteration of the translated inner loop IS the hand model's: the break test, then bstep -- every state,
     every kernel, error outcomes included.  The exact-zero counter b_exact0 is a ghost of the model (the code has none). *)
  Theorem g_bal_body_step k idx s :
    g_bal_body N k idx (st_of s) =
    match b_ip s with
    | [_] => Ok (true, st_of s)                                       (* len(instr_ports) == 1: break *)
    | _ => s' <- bstep N k idx s ;; Ok (false, st_of s')
    end.
  Proof.
    destruct s as [pp ind ip df ps e]. unfold st_of, g_bal_body; cbn [b_ip b_df b_pp b_ind b_ps]. rewrite len_is_1.
    destruct ip as [|x0 [|y0 ip0]]; [|reflexivity|];
      unfold bstep, rule1, rule2, add_at, sub_at, INC, zero; cbn [b_ip b_df b_pp b_ind b_ps b_exact0]; repeat step.
  Qed.

  (* (S1') the translated loop IS bloop *)
  Theorem g_bal_loop_eq k idx : forall n s,
    py_loop n (st_of s) (g_bal_body N k idx) = (s' <- bloop N n k idx s ;; Ok (st_of s')).
  Proof.
    induction n as [|n IH]; intros s; [reflexivity|]. cbn [py_loop bloop]. rewrite g_bal_body_step.
    destruct (b_ip s) as [|x0 [|y0 ip0]]; try reflexivity.
    - destruct (bstep N k idx s) as [s'|e0]; [|reflexivity]. cbn [bind fst snd]. apply IH.
    - destruct (bstep N k idx s) as [s'|e0]; [|reflexivity]. cbn [bind fst snd]. apply IH.
  Qed.
End Step.

(* ------------------------------------------------------------------ stage 2: the body of `for uop in instruction_form.port_uops` and the loop *)
Section Uop.
  Context {T : Type} (N : NumOps T).

  (* writing the row of line idx twice = writing the second row *)
  Lemma set_nth_nth_error {A} : forall (l : list A) i v l', set_nth l i v = Ok l' -> nth_error l' i = Some v.
  Proof.
    induction l as [|x l IH]; intros i v l' H; [destruct i; discriminate|]. destruct i as [|i].
    - inversion H; reflexivity.
    - cbn [set_nth] in H. destruct (set_nth l i v) as [r|] eqn:E; [|discriminate]. inversion H; subst. cbn. eapply IH; exact E.
  Qed.
  Lemma set_nth_twice {A} : forall (l : list A) i v w l', set_nth l i v = Ok l' -> set_nth l' i w = set_nth l i w.
  Proof.
    induction l as [|x l IH]; intros i v w l' H; [destruct i; discriminate|]. destruct i as [|i].
    - inversion H; reflexivity.
    - cbn [set_nth] in H. destruct (set_nth l i v) as [r|] eqn:E; [|discriminate]. inversion H; subst. cbn [set_nth].
      rewrite (IH i v w r E). reflexivity.
  Qed.
  Lemma set_nth_some {A} : forall (l : list A) i x v, nth_error l i = Some x -> exists l', set_nth l i v = Ok l'.
  Proof.
    induction l as [|y l IH]; intros i x v H; [destruct i; discriminate|]. destruct i as [|i]; [eexists; reflexivity|].
    cbn in H. destruct (IH i x v H) as [l' E]. cbn [set_nth]. rewrite E. eexists; reflexivity.
  Qed.
  Lemma set_pp_twice (k : list (instr (T:=T))) idx a b : set_pp (set_pp k idx a) idx b = set_pp k idx b.
  Proof.
    unfold set_pp at 2 3. destruct (nth_error k idx) as [i|] eqn:E; [|unfold set_pp; rewrite E; reflexivity].
    destruct (set_nth_some k idx i (mkinstr (i_tp i) a (i_uops i)) E) as [k1 E1]. rewrite E1.
    unfold set_pp. rewrite (set_nth_nth_error _ _ _ _ E1). cbn [i_tp i_uops].
    rewrite (set_nth_twice _ _ _ _ _ E1).
    destruct (set_nth_some k idx i (mkinstr (i_tp i) b (i_uops i)) E) as [k2 E2]. rewrite E2. reflexivity.
  Qed.

  (* the balancing of one micro-op sees the kernel only through `set_pp k idx <row>` *)
  Ltac head t :=
    match t with
    | bind ?r _ => head r
    | (if ?c then _ else _) => head c
    | (match ?c with _ => _ end) => head c
    | _ => t
    end.
  Ltac kstep H :=
    cbn [bind]; try reflexivity;
    match goal with
    | |- ?L = _ => let h := head L in
      lazymatch h with
      | Ok _ => fail
      | Err _ => fail
      | context [set_pp (set_pp _ _ _) _ _] => rewrite H
      | _ => let E := fresh "E" in destruct h eqn:E
      end
    end.

  Lemma bstep_kernel k idx a s : bstep N (set_pp k idx a) idx s = bstep N k idx s.
  Proof.
    pose proof (set_pp_twice k idx a) as H. unfold bstep.
    repeat kstep H.
  Qed.
  Lemma bloop_kernel k idx a : forall n s, bloop N n (set_pp k idx a) idx s = bloop N n k idx s.
  Proof.
    induction n as [|n IH]; intros s; [reflexivity|]. cbn [bloop]. rewrite bstep_kernel.
    destruct (b_ip s) as [|x0 [|y0 r]]; try reflexivity; destruct (bstep N k idx s); cbn [bind]; try reflexivity; apply IH.
  Qed.
  Lemma balance_uop_kernel ports k idx a pp u :
    balance_uop N ports (set_pp k idx a) idx pp u = balance_uop N ports k idx pp u.
  Proof.
    unfold balance_uop. destruct u as [c ps]. destruct (indices_of ports ps) as [ind|]; [|reflexivity]. cbn [bind].
    rewrite set_pp_twice. destruct (getmany (tp_sum N (set_pp k idx pp)) ind) as [psums|]; [|reflexivity]. cbn [bind].
    destruct (getmany pp ind) as [ip|]; [|reflexivity]. cbn [bind]. rewrite bloop_kernel. reflexivity.
  Qed.

  (* (S2) the translated body of the micro-op loop IS balance_uop (the counter of exact zeros is the model's ghost) *)
  Theorem g_bal_uop_eq ports k idx u pp :
    g_bal_uop N k ports idx u pp = (r <- balance_uop N ports k idx pp u ;; Ok (fst r)).
  Proof.
    destruct u as [c ps]. unfold g_bal_uop, balance_uop. cbn [fst snd].
    rewrite (py_map_res_indices ports _ (fun p => bind_ok_id (py_index ports p))).
    destruct (indices_of ports ps) as [ind|e]; [|reflexivity]. cbn [bind].
    rewrite getmany_tps_K. destruct (getmany (tp_sum N (set_pp k idx pp)) ind) as [psums|e]; [|reflexivity]. cbn [bind].
    rewrite getmany_K. destruct (getmany pp ind) as [ip|e]; [|reflexivity]. cbn [bind].
    rewrite py_set_len. destruct (all_equal N psums); [reflexivity|]. cbn [negb].
    change (ip, map (fun _ : string => ndiv N c (nofZ N (py_len ps))) ps, pp, ind, psums)
      with (st_of (mkb pp ind ip (map (fun _ : string => ndiv N c (nofZ N (Z.of_nat (List.length ps)))) ps) psums 0)).
    rewrite g_bal_loop_eq. unfold INC.
    destruct (bloop N _ k idx _) as [s'|e]; reflexivity.
  Qed.

  Lemma balance_uops_kernel ports k idx a : forall us pp ex,
    balance_uops N ports (set_pp k idx a) idx pp us ex = balance_uops N ports k idx pp us ex.
  Proof.
    destruct us as [|u us]; intros pp ex; [reflexivity|]. cbn [balance_uops]. rewrite balance_uop_kernel.
    destruct (balance_uop N ports k idx pp u) as [[p1 e1]|]; [|reflexivity]. cbn [bind]. rewrite set_pp_twice. reflexivity.
  Qed.

  (* (S2') the translated micro-op loop IS balance_uops; the Python passes the same (mutated) kernel object to every
     micro-op, the model passes `set_pp k idx <row so far>`: the same thing (balance_uops_kernel) *)
  Definition g_bal_uops ports (k : list (instr (T:=T))) idx pp us := py_for us pp (g_bal_uop N k ports idx).
  Theorem g_bal_uops_eq ports idx : forall us k pp ex,
    g_bal_uops ports k idx pp us = (r <- balance_uops N ports k idx pp us ex ;; Ok (fst r)).
  Proof.
    unfold g_bal_uops. induction us as [|u us IH]; intros k pp ex; [reflexivity|].
    cbn [py_for balance_uops]. rewrite g_bal_uop_eq.
    destruct (balance_uop N ports k idx pp u) as [[pp' e]|e]; [|reflexivity]. cbn [bind fst].
    rewrite (IH k pp' (ex + e)%nat), balance_uops_kernel. reflexivity.
  Qed.
End Uop.

(* ------------------------------------------------------------------ stage 3: the whole function *)
Section Full.
  Context {T : Type} (N : NumOps T).
  Notation kern := (list (instr (T:=T))).
  Notation bestT := (option (kern * T)).

  (* the model's two local fixpoints of balance_from, NAMED (exact copies: balance_from_S below is proved by reflexivity,
     so an edit of Model/Pressure.v that these copies do not follow breaks that lemma) *)
  Definition m_alts_go (recf : kern -> nat -> res (kern * nat)) (ports : list string) (k : kern) (idx : nat) (ins : instr (T:=T)) :=
    fix alts_go (al : list (list (uop (T:=T)))) (best : bestT) (ex : nat) : res (bestT * nat) :=
      match al with
      | [] => Ok (best, ex)
      | alt :: more =>
        pp0 <- avg_pressure_list N ports alt ;;
        let ktmp := set_instr k idx (mkinstr (i_tp ins) pp0 (UList alt)) in
        '(kres, e) <- recf (rev ktmp) idx ;;
        m <- list_max N (tp_sum N kres) ;;
        let better := match best with
                      | None => true
                      | Some (_, btp) => nltb N m btp
                      end in
        alts_go more (if better then Some (kres, m) else best) (ex + e)%nat
      end.

  Definition m_go (recf : kern -> nat -> res (kern * nat)) (ports : list string) :=
    fix go (todo : list nat) (k : kern) (multi : bool) (best : bestT) (ex : nat) : res (kern * bool * bestT * nat) :=
      match todo with
      | [] => Ok (k, multi, best, ex)
      | idx :: rest =>
        match nth_error k idx with
        | None => Err EIndex
        | Some ins =>
          r <- (match i_uops ins with
                | UList us => Ok (k, us, false, None, ex)
                | UDict alts =>
                  match alts with
                  | [] => Err EIndex
                  | first :: others =>
                    b <- m_alts_go recf ports k idx ins others None ex ;;
                    let '(best', ex') := b in
                    Ok (set_instr k idx (mkinstr (i_tp ins) (i_pp ins) (UList first)), first, true, best', ex')
                  end
                end) ;;
          let '(k1, us, multi', best', ex1) := r in
          match nth_error k1 idx with
          | None => Err EIndex
          | Some ins1 =>
            '(pp', ex2) <- balance_uops N ports k1 idx (i_pp ins1) us ex1 ;;
            go rest (set_pp k1 idx pp') multi' (if multi' then best' else best) ex2
          end
        end
      end.

  Definition m_final (kfin : kern) (multi : bool) (best : bestT) (ex : nat) : res (kern * nat) :=
    let kout := rev kfin in
    if multi then
      m <- list_max N (tp_sum N kout) ;;
      match best with
      | Some (bk, btp) =>
        if nltb N btp m
        then Ok (map (fun p => mkinstr (i_tp (fst p)) (i_pp (snd p)) (i_uops (snd p))) (combine kout bk), ex)
        else Ok (kout, ex)
      | None => Ok (kout, ex)
      end
    else Ok (kout, ex).

  Lemma balance_from_S fuel' ports kprog start :
    balance_from N (S fuel') ports kprog start =
    match tp_sum N kprog with
    | [] => Ok (kprog, 0%nat)
    | _ :: _ =>
      r <- m_go (balance_from N fuel' ports) ports (seq start (List.length (rev kprog) - start)) (rev kprog) false None 0%nat ;;
      let '(kfin, multi, best, ex) := r in m_final kfin multi best ex
    end.
  Proof. reflexivity. Qed.
  (* ---- list facts *)
  Lemma set_nth_length {A} : forall (l : list A) i v l', set_nth l i v = Ok l' -> List.length l' = List.length l.
  Proof.
    induction l as [|x l IH]; intros i v l' H; [destruct i; discriminate|]. destruct i as [|i]; [inversion H; reflexivity|].
    cbn [set_nth] in H. destruct (set_nth l i v) as [r|] eqn:E; [|discriminate]. inversion H; subst. cbn [List.length].
    f_equal. eapply IH; exact E.
  Qed.
  Lemma set_instr_length (k : kern) idx v : List.length (set_instr k idx v) = List.length k.
  Proof. unfold set_instr. destruct (set_nth k idx v) eqn:E; [eapply set_nth_length; exact E|reflexivity]. Qed.
  Lemma set_pp_length (k : kern) idx pp : List.length (set_pp k idx pp) = List.length k.
  Proof.
    unfold set_pp. destruct (nth_error k idx); [|reflexivity].
    destruct (set_nth k idx _) eqn:E; [eapply set_nth_length; exact E|reflexivity].
  Qed.
  Lemma set_nth_instr (k : kern) idx ins v : nth_error k idx = Some ins -> set_nth k idx v = Ok (set_instr k idx v).
  Proof. intros H. destruct (set_nth_some k idx ins v H) as [k' E]. unfold set_instr. rewrite E. reflexivity. Qed.
  Lemma nth_res_some {A} (l : list A) i x : nth_error l i = Some x -> nth_res l i = Ok x.
  Proof. intros H. unfold nth_res. rewrite H. reflexivity. Qed.
  Lemma set_instr_nth (k : kern) idx ins v : nth_error k idx = Some ins -> nth_error (set_instr k idx v) idx = Some v.
  Proof. intros H. eapply set_nth_nth_error. apply (set_nth_instr k idx ins v H). Qed.
  Lemma set_instr_twice (k : kern) idx ins v w : nth_error k idx = Some ins -> set_instr (set_instr k idx v) idx w = set_instr k idx w.
  Proof.
    intros H. unfold set_instr at 1 3. rewrite (set_nth_twice _ _ _ w _ (set_nth_instr k idx ins v H)).
    rewrite (set_nth_instr k idx ins w H). reflexivity.
  Qed.

  (* ---- length is kept by the model (needed for the final copy loop: Python indexes, the model zips) *)
  Definition best_len (n : nat) (b : bestT) : Prop := forall bk bt, b = Some (bk, bt) -> List.length bk = n.

  Section Len.
    Variables (recf : kern -> nat -> res (kern * nat)) (ports : list string).
    Hypothesis recf_len : forall k s k' e, recf k s = Ok (k', e) -> List.length k' = List.length k.

    Lemma m_alts_go_len k idx ins : forall al best ex best' ex',
      best_len (List.length k) best -> m_alts_go recf ports k idx ins al best ex = Ok (best', ex') -> best_len (List.length k) best'.
    Proof.
      induction al as [|alt al IH]; intros best ex best' ex' HB H; cbn [m_alts_go] in H.
      - inversion H; subst. exact HB.
      - destruct (avg_pressure_list N ports alt) as [pp0|]; [|discriminate]. cbn [bind] in H.
        destruct (recf _ idx) as [[kres e]|] eqn:R; [|discriminate]. cbn [bind] in H.
        destruct (list_max N (tp_sum N kres)) as [m|]; [|discriminate]. cbn [bind] in H.
        apply recf_len in R. rewrite rev_length, set_instr_length in R.
        eapply IH; [|exact H]. destruct (match best with Some (_, btp) => nltb N m btp | None => true end); [|exact HB].
        intros bk bt E. inversion E; subst. exact R.
    Qed.

    Lemma m_go_len : forall todo k multi best ex kf mf bf ef,
      best_len (List.length k) best -> m_go recf ports todo k multi best ex = Ok (kf, mf, bf, ef) ->
      List.length kf = List.length k /\ best_len (List.length k) bf.
    Proof.
      induction todo as [|idx todo IH]; intros k multi best ex kf mf bf ef HB H; cbn [m_go] in H.
      - inversion H; subst. split; [reflexivity|exact HB].
      - destruct (nth_error k idx) as [ins|] eqn:Hk; [|discriminate].
        destruct (i_uops ins) as [us|alts].
        + cbn [bind] in H. rewrite Hk in H.
          destruct (balance_uops N ports k idx (i_pp ins) us ex) as [[pp' ex2]|]; [|discriminate]. cbn [bind] in H.
          apply IH in H; [|rewrite set_pp_length; exact HB]. rewrite set_pp_length in H. exact H.
        + destruct alts as [|first others]; [discriminate|].
          destruct (m_alts_go recf ports k idx ins others None ex) as [[best' ex']|] eqn:A; [|discriminate]. cbn [bind] in H.
          apply m_alts_go_len in A; [|intros ? ? E; discriminate].
          rewrite (set_instr_nth k idx ins _ Hk) in H. cbn [i_pp] in H.
          destruct (balance_uops N ports _ idx (i_pp ins) first ex') as [[pp' ex2]|]; [|discriminate]. cbn [bind] in H.
          apply IH in H; [|rewrite set_pp_length, set_instr_length; exact A].
          rewrite set_pp_length, set_instr_length in H. exact H.
    Qed.

    Lemma m_final_len kfin multi best ex k' e :
      best_len (List.length kfin) best -> m_final kfin multi best ex = Ok (k', e) -> List.length k' = List.length kfin.
    Proof.
      intros HB H. unfold m_final in H. destruct multi; [|inversion H; apply rev_length].
      destruct (list_max N _) as [m|]; [|discriminate]. cbn [bind] in H.
      destruct best as [[bk bt]|]; [|inversion H; apply rev_length].
      destruct (nltb N bt m); [|inversion H; apply rev_length]. inversion H; subst.
      rewrite map_length, combine_length, rev_length, (HB bk bt eq_refl). apply Nat.min_id.
    Qed.
  End Len.

  Theorem balance_from_length : forall fuel ports k s k' e,
    balance_from N fuel ports k s = Ok (k', e) -> List.length k' = List.length k.
  Proof.
    induction fuel as [|fuel IH]; intros ports k s k' e H; [discriminate|]. rewrite balance_from_S in H.
    destruct (tp_sum N k); [inversion H; reflexivity|].
    destruct (m_go _ ports _ (rev k) false None 0%nat) as [[[[kf mf] bf] ef]|] eqn:G; [|discriminate]. cbn [bind] in H.
    apply (m_go_len _ ports (IH ports)) in G; [|intros ? ? E; discriminate]. destruct G as [L B].
    apply m_final_len in H; [|rewrite L; exact B]. rewrite H, L. apply rev_length.
  Qed.
  (* ---- the alternatives loop *)
  Definition unjn (b : bestT) : option kern * option T :=
    match b with Some (bk, bt) => (Some bk, Some bt) | None => (None, None) end.

  Section Loops.
    Variables (recf : kern -> nat -> res (kern * nat)) (grec : kern -> nat -> res kern) (ports : list string).
    Hypothesis Hrec : forall k s, grec k s = (r <- recf k s ;; Ok (fst r)).

    Lemma alt_loop k idx ins : nth_error k idx = Some ins -> forall al best ex,
      py_for al (unjn best) (g_bal_alt N ports grec k idx) =
      (r <- m_alts_go recf ports k idx ins al best ex ;; Ok (unjn (fst r))).
    Proof.
      intros Hk. induction al as [|alt al IH]; intros best ex; [reflexivity|].
      cbn [py_for m_alts_go]. unfold g_bal_alt at 1.
      assert (ST : forall bk bt, (let '(v_best_kernel, v_best_kernel_tp) := (bk, bt) in
                                   g_bal_alt N ports grec k idx alt (v_best_kernel, v_best_kernel_tp)) =
                                  g_bal_alt N ports grec k idx alt (bk, bt)) by reflexivity.
      set (ALT := mkinstr (i_tp ins) (i_pp ins) (UList alt)).
      assert (E1 : nth_res k idx = Ok ins) by (apply nth_res_some; exact Hk).
      assert (E2 : set_nth k idx ALT = Ok (set_instr k idx ALT)) by (eapply set_nth_instr; exact Hk).
      assert (E3 : nth_res (set_instr k idx ALT) idx = Ok ALT) by (apply nth_res_some; eapply set_instr_nth; exact Hk).
      replace (unjn best) with (fst (unjn best), snd (unjn best)) by (destruct (unjn best); reflexivity).
      cbn beta iota zeta. rewrite E1. cbn [bind]. fold ALT. rewrite E2. cbn [bind]. rewrite E3. cbn [bind].
      unfold ALT at 1. cbn [i_uops]. rewrite g_avg_list.
      destruct (avg_pressure_list N ports alt) as [pp0|e0]; [|reflexivity]. cbn [bind].
      subst ALT. cbn [i_tp i_uops].
      rewrite (set_nth_twice _ _ _ _ _ E2).
      rewrite (set_nth_instr k idx ins _ Hk). cbn [bind]. rewrite Hrec.
      destruct (recf (rev (set_instr k idx (mkinstr (i_tp ins) pp0 (UList alt)))) idx) as [[kres e]|e0]; cbn [bind]; [|reflexivity].
      cbn [bind fst]. rewrite g_get_throughput_sum_eq. cbn [bind]. rewrite py_max_eq.
      destruct (list_max N (tp_sum N kres)) as [m|e0] eqn:EM; cbn [bind]; [|reflexivity].
      destruct best as [[bk bt]|]; cbn [unjn fst snd py_lt_maxsize].
      - destruct (nltb N m bt).
        + cbn [py_some bind]. rewrite g_get_throughput_sum_eq. cbn [bind]. rewrite py_max_eq, EM. cbn [bind].
          exact (IH (Some (kres, m)) (ex + e)%nat).
        + exact (IH (Some (bk, bt)) (ex + e)%nat).
      - cbn [py_some bind]. rewrite g_get_throughput_sum_eq. cbn [bind]. rewrite py_max_eq, EM. cbn [bind].
        exact (IH (Some (kres, m)) (ex + e)%nat).
    Qed.
    (* ---- the instruction loop *)
    Definition gst (multi : bool) (best : bestT) (k : kern) : bool * option kern * option T * kern :=
      (multi, fst (unjn best), snd (unjn best), k).

    Lemma go_loop : forall todo k multi best ex,
      py_for todo (gst multi best k) (g_bal_instr N ports grec ports) =
      (r <- m_go recf ports todo k multi best ex ;; let '(kf, mf, bf, _) := r in Ok (gst mf bf kf)).
    Proof.
      induction todo as [|idx todo IH]; intros k multi best ex; [reflexivity|].
      cbn [py_for m_go]. unfold g_bal_instr at 1. unfold gst at 1. cbn beta iota zeta.
      unfold nth_res at 1. destruct (nth_error k idx) as [ins|] eqn:Hk; [|reflexivity]. cbn [bind].
      destruct (i_uops ins) as [us|alts] eqn:EU.
      - (* a list of micro-ops *)
        cbn [bind]. rewrite (nth_res_some _ _ _ Hk). cbn [bind]. rewrite EU. cbn [py_iter_uops bind]. rewrite Hk.
        change (py_for us (i_pp ins) (g_bal_uop N k ports idx)) with (g_bal_uops N ports k idx (i_pp ins) us).
        rewrite (g_bal_uops_eq N ports idx us k (i_pp ins) ex).
        destruct (balance_uops N ports k idx (i_pp ins) us ex) as [[pp' ex2]|e0]; cbn [bind fst]; [|reflexivity].
        exact (IH (set_pp k idx pp') false best ex2).
      - (* alternatives *)
        destruct alts as [|first others].
        + cbn [skipn py_for bind nth_res nth_error]. reflexivity.
        + cbn [skipn]. pose proof (alt_loop k idx ins Hk others None ex) as AL.
          match type of AL with ?L = _ => match goal with |- context [py_for others ?a ?b] => change (py_for others a b) with L end end.
          rewrite AL. clear AL.
          destruct (m_alts_go recf ports k idx ins others None ex) as [[best' ex']|e0]; cbn [bind fst]; [|reflexivity].
          replace (unjn best') with (fst (unjn best'), snd (unjn best')) by (destruct (unjn best'); reflexivity).
          cbn beta iota zeta. cbn [nth_res nth_error bind]. rewrite (nth_res_some _ _ _ Hk). cbn [bind].
          set (FI := mkinstr (i_tp ins) (i_pp ins) (UList first)).
          rewrite (set_nth_instr k idx ins FI Hk). cbn [bind].
          rewrite (nth_res_some _ _ _ (set_instr_nth k idx ins FI Hk)). cbn [bind].
          rewrite (set_instr_nth k idx ins FI Hk). cbn [FI i_uops i_pp py_iter_uops bind].
          pose proof (g_bal_uops_eq N ports idx first (set_instr k idx FI) (i_pp ins) ex') as GE. unfold g_bal_uops in GE.
          match type of GE with ?L = _ => match goal with |- context [py_for first ?a ?b] => change (py_for first a b) with L end end.
          rewrite GE. clear GE.
          destruct (balance_uops N ports (set_instr k idx FI) idx (i_pp ins) first ex') as [[pp' ex2]|e0]; cbn [bind fst]; [|reflexivity].
          exact (IH (set_pp (set_instr k idx FI) idx pp') true best' ex2).
    Qed.
  End Loops.

  (* ---- the final copy loop: `for i, instr in enumerate(best_kernel): kernel[i].port_uops = ...; kernel[i].port_pressure = ...`
     is the model's zip of the two kernels WHEN THEY HAVE THE SAME LENGTH (Python indexes, the model truncates) *)
  Definition cp (p : instr (T:=T) * instr (T:=T)) : instr (T:=T) := mkinstr (i_tp (fst p)) (i_pp (snd p)) (i_uops (snd p)).

  Lemma nth_error_mid {A} (a : list A) x b : nth_error (a ++ x :: b) (List.length a) = Some x.
  Proof. rewrite nth_error_app2 by apply Nat.le_refl. rewrite Nat.sub_diag. reflexivity. Qed.
  Lemma set_nth_mid {A} : forall (a : list A) x b v, set_nth (a ++ x :: b) (List.length a) v = Ok (a ++ v :: b).
  Proof. induction a as [|y a IH]; intros x b v; [reflexivity|]. cbn [app List.length set_nth]. rewrite IH. reflexivity. Qed.

  Lemma copy_loop : forall bk2 done todo bk1,
    List.length bk1 = List.length done -> List.length todo = List.length bk2 ->
    py_for (combine (seq (List.length done) (List.length bk2)) bk2) (done ++ todo) (g_bal_copy (Some (bk1 ++ bk2))) =
    Ok (done ++ map cp (combine todo bk2)).
  Proof.
    induction bk2 as [|b bk2 IH]; intros done todo bk1 L1 L2.
    - destruct todo; [|discriminate]. reflexivity.
    - destruct todo as [|x todo]; [discriminate|]. cbn [List.length seq combine py_for map].
      unfold g_bal_copy at 1. cbn beta iota zeta. cbn [py_some bind].
      assert (B : nth_res (bk1 ++ b :: bk2) (List.length done) = Ok b).
      { apply nth_res_some. rewrite <- L1. apply nth_error_mid. }
      rewrite B. cbn [bind]. rewrite (nth_res_some _ _ _ (nth_error_mid done x todo)). cbn [bind].
      rewrite set_nth_mid. cbn [bind]. rewrite (nth_res_some _ _ _ (nth_error_mid done _ todo)). cbn [bind].
      rewrite set_nth_mid. cbn [bind i_tp i_uops].
      replace (S (List.length done)) with (List.length (done ++ [cp (x, b)])) by (rewrite app_length; cbn; lia).
      replace (bk1 ++ b :: bk2) with ((bk1 ++ [b]) ++ bk2) by (rewrite <- app_assoc; reflexivity).
      change (done ++ mkinstr (i_tp x) (i_pp b) (i_uops b) :: todo) with (done ++ [cp (x, b)] ++ todo).
      rewrite app_assoc. rewrite IH.
      + rewrite <- app_assoc. reflexivity.
      + rewrite !app_length. cbn. lia.
      + cbn in L2. lia.
  Qed.

  (* (S3) THE WHOLE FUNCTION: the regenerated assign_optimal_throughput IS the hand model's balance_from, for every
     numeric instance, every fuel, port list, kernel and start index, error outcomes included (the model additionally
     returns its ghost counter of exact zeros) *)
  Theorem g_assign_optimal_throughput_eq : forall fuel ports k start,
    g_assign_optimal_throughput N fuel ports k start = (r <- balance_from N fuel ports k start ;; Ok (fst r)).
  Proof.
    induction fuel as [|fuel IH]; intros ports k start; [reflexivity|].
    rewrite balance_from_S. cbn [g_assign_optimal_throughput]. rewrite g_get_throughput_sum_eq. cbn [bind].
    destruct (tp_sum N k) as [|t0 ts] eqn:TP; [reflexivity|]. cbn [negb]. cbn zeta.
    change (false, @None kern, @None T, rev k) with (gst false None (rev k)).
    rewrite (go_loop (balance_from N fuel ports) (g_assign_optimal_throughput N fuel ports) ports (IH ports) _ (rev k) false None 0%nat).
    destruct (m_go (balance_from N fuel ports) ports (seq start (List.length (rev k) - start)) (rev k) false None 0%nat)
      as [[[[kf mf] bf] ef]|e0] eqn:G; cbn [bind]; [|reflexivity].
    apply (m_go_len _ ports (balance_from_length fuel ports)) in G; [|intros ? ? E; discriminate]. destruct G as [LK LB].
    unfold gst, m_final. cbn beta iota zeta. destruct mf; [|reflexivity].
    rewrite g_get_throughput_sum_eq. cbn [bind]. rewrite py_max_eq.
    destruct (list_max N (tp_sum N (rev kf))) as [m|e0]; cbn [bind]; [|reflexivity].
    destruct bf as [[bk bt]|]; cbn [unjn fst snd py_gt_maxsize]; [|reflexivity].
    destruct (nltb N bt m); [|reflexivity]. cbn [py_some bind].
    pose proof (copy_loop bk [] (rev kf) [] eq_refl) as CL. cbn [app List.length] in CL.
    unfold py_enumerate. rewrite CL; [reflexivity|]. rewrite rev_length, LK. symmetry. exact (LB bk bt eq_refl).
  Qed.
End Full.

(* ------------------------------------------------------------------ property theorems *)
From OV Require Import Proofs.Feasible Proofs.PressureQ Proofs.BalanceFrame Proofs.BalanceMulti Proofs.BalancePass Proofs.BalanceTotal
  Proofs.Optimum.

(* what the call `assign_optimal_throughput(kernel)` computes: the regenerated function from start = 0, with the fuel of the
   model's `balance` (the nesting of the alternative search is bounded by the number of instructions) *)
Definition g_pass {T} (N : NumOps T) (ports : list string) (k : list (instr (T:=T))) : res (list (instr (T:=T))) :=
  g_assign_optimal_throughput N (S (List.length k)) ports k 0.

(* (T1) one iteration of the regenerated inner loop = the break test + the hand model's bstep; (T1') the loop = bloop *)
Theorem C01bal_step_is_model : forall (T : Type) (N : NumOps T) k idx s,
  g_bal_body N k idx (st_of s) =
  match b_ip s with [_] => Ok (true, st_of s) | _ => s' <- bstep N k idx s ;; Ok (false, st_of s') end.
Proof. intros. apply g_bal_body_step. Qed.
Print Assumptions C01bal_step_is_model.

Theorem C01bal_loop_is_model : forall (T : Type) (N : NumOps T) k idx n s,
  py_loop n (st_of s) (g_bal_body N k idx) = (s' <- bloop N n k idx s ;; Ok (st_of s')).
Proof. intros. apply g_bal_loop_eq. Qed.
Print Assumptions C01bal_loop_is_model.

(* (T2) the regenerated body of `for uop in instruction_form.port_uops` = balance_uop, the loop = balance_uops *)
Theorem C01bal_uop_is_model : forall (T : Type) (N : NumOps T) ports k idx u pp,
  g_bal_uop N k ports idx u pp = (r <- balance_uop N ports k idx pp u ;; Ok (fst r)).
Proof. intros. apply g_bal_uop_eq. Qed.
Print Assumptions C01bal_uop_is_model.

Theorem C01bal_uops_is_model : forall (T : Type) (N : NumOps T) ports k idx us pp ex,
  py_for us pp (g_bal_uop N k ports idx) = (r <- balance_uops N ports k idx pp us ex ;; Ok (fst r)).
Proof. intros. apply (g_bal_uops_eq N ports idx us k pp ex). Qed.
Print Assumptions C01bal_uops_is_model.

(* (T3) the regenerated assign_optimal_throughput = balance_from (alternatives, recursion, final comparison included) *)
Theorem C01bal_function_is_model : forall (T : Type) (N : NumOps T) fuel ports k start,
  g_assign_optimal_throughput N fuel ports k start = (r <- balance_from N fuel ports k start ;; Ok (fst r)).
Proof. intros. apply g_assign_optimal_throughput_eq. Qed.
Print Assumptions C01bal_function_is_model.

Theorem C01bal_pass_is_model : forall (T : Type) (N : NumOps T) ports k,
  g_pass N ports k = (r <- balance N ports k ;; Ok (fst r)).
Proof. intros. apply g_assign_optimal_throughput_eq. Qed.
Print Assumptions C01bal_pass_is_model.

Lemma g_pass_ok {T} (N : NumOps T) ports k k' : g_pass N ports k = Ok k' -> exists e, balance N ports k = Ok (k', e).
Proof.
  rewrite C01bal_pass_is_model. destruct (balance N ports k) as [[k1 e]|]; [|discriminate].
  intros H. inversion H; subst. exists e. reflexivity.
Qed.

(* the model keeps the kernel's length -- for the regenerated function: the caller's list keeps its length *)
Theorem C01bal_length_kept : forall (T : Type) (N : NumOps T) fuel ports k start k',
  g_assign_optimal_throughput N fuel ports k start = Ok k' -> List.length k' = List.length k.
Proof.
  intros T N fuel ports k start k'. rewrite C01bal_function_is_model.
  destruct (balance_from N fuel ports k start) as [[k1 e]|] eqn:B; [|discriminate]. intros H. inversion H; subst.
  exact (balance_from_length N fuel ports k start k' e B).
Qed.
Print Assumptions C01bal_length_kept.

(* (C1) Props/C01.v (3) for the regenerated micro-op loop: only cells of ports the micro-ops may use change *)
Theorem C01bal_balance_preserves_support : forall (T : Type) (N : NumOps T) (d : T) ports idx us k pp pp',
  py_for us pp (g_bal_uop N k ports idx) = Ok pp' ->
  List.length pp' = List.length pp /\ forall j, ~ allowed ports us j -> nth j pp' d = nth j pp d.
Proof.
  intros T N d ports idx us k pp pp'. rewrite (C01bal_uops_is_model T N ports k idx us pp 0%nat).
  destruct (balance_uops N ports k idx pp us 0%nat) as [[p1 e]|] eqn:B; [|discriminate]. intros H. inversion H; subst.
  exact (balance_uops_frame N d ports idx us k pp 0%nat pp' e B).
Qed.
Print Assumptions C01bal_balance_preserves_support.

(* (C2) Props/C01.v (12)+(17) for the REGENERATED function (exact rationals, kernels of any length without alternatives, every
   instruction as the semantic stage builds it): the call returns, the kernel keeps its length, every instruction keeps its
   throughput and micro-ops, and every row is a feasible split of its own micro-ops with slack 1/100, all cells >= 0 *)
Theorem C01bal_one_pass_total_feasible : forall ports (k : list (instr (T:=Q))),
  all_start_ok ports k ->
  exists k', g_pass QNum ports k = Ok k' /\
    List.length k' = List.length k /\
    forall j, (j < List.length k)%nat ->
      i_tp (nth j k' dins) = i_tp (nth j k dins) /\ i_uops (nth j k' dins) = i_uops (nth j k dins) /\
      done_ok ports (nth j k' dins).
Proof.
  intros ports k H. destruct (balance_pass_total_feasible ports k H) as (k' & e & B & R).
  exists k'. split; [|exact R]. rewrite C01bal_pass_is_model, B. reflexivity.
Qed.
Print Assumptions C01bal_one_pass_total_feasible.

Theorem C01bal_one_pass_feasible : forall ports (k k' : list (instr (T:=Q))),
  all_start_ok ports k -> g_pass QNum ports k = Ok k' ->
  List.length k' = List.length k /\
  forall j, (j < List.length k)%nat ->
    i_tp (nth j k' dins) = i_tp (nth j k dins) /\ i_uops (nth j k' dins) = i_uops (nth j k dins) /\
    done_ok ports (nth j k' dins).
Proof. intros ports k k' H G. destruct (g_pass_ok QNum ports k k' G) as [e B]. exact (balance_pass_feasible ports k k' e H B). Qed.
Print Assumptions C01bal_one_pass_feasible.

(* (C3) Props/C02.v (3) for the REGENERATED function: the reported bottleneck after one pass is at least the optimum of the
   INPUT kernel's counted micro-ops on every non-empty port set, minus the explicit slack *)
Theorem C02bal_one_pass_near_optimum : forall ports (k k' : list (instr (T:=Q))) B S,
  all_start_ok ports k -> g_pass QNum ports k = Ok k' -> bottleneck QNum k' = Ok B ->
  0 < card (List.length ports) S ->
  kconfined S (kview ports (filter (counted QNum) k)) / card (List.length ports) S
  - (1 # 100) * knonconf S (kview ports (filter (counted QNum) k)) - (1 # 200) <= B.
Proof.
  intros ports k k' B S H G. destruct (g_pass_ok QNum ports k k' G) as [e BL].
  exact (pass_bottleneck_near_optimum ports k k' e B S H BL).
Qed.
Print Assumptions C02bal_one_pass_near_optimum.

(* non-vacuity (exact rationals): the regenerated function evaluates.  (a) the 3-port kernel of C01_one_pass_nonvacuous meets the
   hypothesis of (C2) and its first row is re-balanced; (b) a kernel whose first instruction has two alternative port
   assignments (port 0 | port 1) next to an instruction on port 0: the alternative search (recursion, comparison of the port
   maxima, final copy loop) picks the second alternative; (c) an empty kernel / a kernel without throughput returns at once;
   (d) a micro-op naming a port the model does not have raises ValueError (list.index) *)
Example C01bal_nonvacuous :
  all_start_ok exm_ports exm_kernel /\
  (exists k', g_pass QNum exm_ports exm_kernel = Ok k' /\ i_pp (nth 0 k' dins) = [12 # 25; 63 # 100; 16 # 25]
              /\ i_pp (nth 0 exm_kernel dins) = [1 # 2; 3 # 4; 1 # 2]) /\
  g_pass QNum ["0"; "1"]%string
    [mkinstr 1 [1; 0] (UDict [[(1, ["0"]%string)]; [(1, ["1"]%string)]]); mkinstr 1 [1; 0] (UList [(1, ["0"]%string)])]
  = Ok [mkinstr 1 [0; 1] (UList [(1, ["1"]%string)]); mkinstr 1 [1; 0] (UList [(1, ["0"]%string)])] /\
  g_pass QNum ["0"; "1"]%string [] = Ok [] /\
  g_pass QNum ["0"; "1"]%string [mkinstr 0 [1; 0] (UList [(1, ["0"]%string)])] = Ok [mkinstr 0 [1; 0] (UList [(1, ["0"]%string)])] /\
  g_pass QNum ["0"; "1"]%string [mkinstr 1 [1; 0] (UList [(1, ["7"]%string)])] = Err EValue.
Proof.
  split; [exact (proj1 balance_pass_nonvacuous)|]. split.
  - eexists. split; [vm_compute; reflexivity|]. split; vm_compute; reflexivity.
  - repeat split; vm_compute; reflexivity.
Qed.
