(* Property C01/C02, translation tie for the BALANCER: the definitions REGENERATED on every run by tools/gen_c01bal.py from
   the current source of ArchSemantics.assign_optimal_throughput (Gen/BalanceGen.v) are extensionally equal to the
   hand-written model of Model/Pressure.v (bstep / bloop / balance_uop / balance_uops ...) -- for EVERY numeric instance
   N : NumOps T, every state and every input, error outcomes included -- and the C01/C02 theorems about the hand model
   are restated for the regenerated definitions.  Compiled by the check (harness/c01_bal.py), not by make. *)
From Coq Require Import ZArith QArith List Bool String Lia.
From OV Require Import Model.Num Model.Pressure Gen.PressureGen Gen.BalanceGen PropsGen.C01gen.
Import ListNotations.

(* ------------------------------------------------------------------ the translator's prelude = the hand model's list operations *)
Section Prelude.
  Context {T : Type} (N : NumOps T).

  Lemma py_max_go_fold : forall l m, py_max_go N m l = fold_left (fun m y => if nltb N m y then y else m) l m.
  Proof. induction l as [|y l IH]; intros m; [reflexivity|]. cbn [py_max_go fold_left]. apply IH. Qed.
  Lemma py_max_eq l : py_max N l = list_max N l.
  Proof. destruct l as [|x r]; [reflexivity|]. unfold py_max, list_max. f_equal. apply py_max_go_fold. Qed.

  Lemma py_min_go_fold : forall l m, py_min_go N m l = fold_left (fun m y => if nltb N y m then y else m) l m.
  Proof. induction l as [|y l IH]; intros m; [reflexivity|]. cbn [py_min_go fold_left]. apply IH. Qed.
  Lemma py_min_eq l : py_min N l = list_min N l.
  Proof. destruct l as [|x r]; [reflexivity|]. unfold py_min, list_min. f_equal. apply py_min_go_fold. Qed.

  Lemma py_index_num_from_eq v : forall l k,
    py_index_num_from N l v k = match find_index (fun x => neqb N x v) l k with Some i => Ok i | None => Err EValue end.
  Proof.
    induction l as [|y l IH]; intros k; [reflexivity|]. cbn [py_index_num_from find_index].
    destruct (neqb N y v); [reflexivity|apply IH].
  Qed.
  Lemma py_index_num_eq l v : py_index_num N l v = index_of N l v.
  Proof. apply py_index_num_from_eq. Qed.

  (* len(set(l)) > 1  <->  not all elements are equal (to the first one) under the instance's == *)
  Definition set_step (acc : list T) (y : T) : list T := if existsb (fun z => neqb N y z) acc then acc else acc ++ [y].
  Lemma set_fold_grows : forall l acc, (List.length acc <= List.length (fold_left set_step l acc))%nat.
  Proof.
    induction l as [|y l IH]; intros acc; [apply Nat.le_refl|]. cbn [fold_left]. eapply Nat.le_trans; [|apply IH].
    unfold set_step. destruct (existsb _ acc); [apply Nat.le_refl|]. rewrite app_length. cbn. lia.
  Qed.
  Lemma set_fold_single x : forall l,
    (1 <? Z.of_nat (List.length (fold_left set_step l [x])))%Z = negb (forallb (fun y => neqb N y x) l).
  Proof.
    induction l as [|y l IH]; [reflexivity|]. cbn [fold_left forallb]. unfold set_step at 2. cbn [existsb].
    rewrite orb_false_r. destruct (neqb N y x) eqn:E; [exact IH|]. cbn [negb andb app].
    apply Z.ltb_lt. pose proof (set_fold_grows l [x; y]) as H. cbn [List.length] in H. lia.
  Qed.
  Lemma py_set_len l : (1 <? py_len (py_set N l))%Z = negb (all_equal N l).
  Proof.
    destruct l as [|x r]; [reflexivity|]. unfold py_set, py_len, all_equal. cbn [fold_left existsb app].
    exact (set_fold_single x r).
  Qed.

  Lemma py_filter_res_eq (f : nat -> res bool) : forall l, py_filter_res f l = filter_res f l.
  Proof.
    induction l as [|p l IH]; [reflexivity|]. cbn [py_filter_res filter_res]. destruct (f p) as [b|e]; [|reflexivity].
    cbn [bind]. rewrite IH. reflexivity.
  Qed.
  Lemma py_filter_res_ext {A} (f g : A -> res bool) : (forall x, f x = g x) -> forall l, py_filter_res f l = py_filter_res g l.
  Proof. intros H. induction l as [|x l IH]; [reflexivity|]. cbn [py_filter_res]. rewrite H, IH. reflexivity. Qed.

  (* [d for p, d in zip(ind, df) if f p] *)
  Lemma py_zipfilter_eq (f : nat -> res bool) (F : nat * T -> res bool) (G : nat * T -> T) :
    (forall p d, F (p, d) = f p) -> (forall p d, G (p, d) = d) ->
    forall ind df, (t <- py_filter_res F (py_zip ind df) ;; Ok (map G t)) = zipfilter_res f ind df.
  Proof.
    intros HF HG. induction ind as [|p ind IH]; intros df; [reflexivity|]. destruct df as [|d df]; [reflexivity|].
    cbn [py_zip combine py_filter_res zipfilter_res]. rewrite HF. destruct (f p) as [b|e]; [|reflexivity]. cbn [bind].
    specialize (IH df). unfold py_zip in IH. destruct (py_filter_res F (combine ind df)) as [t|e]; cbn [bind] in *.
    - rewrite <- IH. cbn [bind]. destruct b; [cbn [map]; rewrite HG|]; reflexivity.
    - rewrite <- IH. reflexivity.
  Qed.

  (* [port_list.index(p) for p in ports] *)
  Lemma py_map_res_indices ports (F : string -> res nat) :
    (forall p, F p = py_index ports p) -> forall ps, py_map_res F ps = indices_of ports ps.
  Proof.
    intros HF. induction ps as [|p ps IH]; [reflexivity|]. cbn [py_map_res indices_of]. rewrite HF, py_index_spec.
    destruct (port_index ports p); [|reflexivity]. cbn [bind]. rewrite IH. reflexivity.
  Qed.

  (* self._to_list(itemgetter( *ind )(l)) *)
  Lemma py_getmany_eq (l : list T) ind :
    (u <- py_itemgetter_new ind ;; o <- BalanceGen.py_itemgetter l ind ;; g_to_list o) = getmany l ind.
  Proof.
    rewrite <- (g_to_list_itemgetter_eq l ind). destruct ind as [|i [|j r]]; reflexivity.
  Qed.
  (* ... with the evaluation of get_throughput_sum between the construction of the getter and its application *)
  Lemma py_getmany_tps_eq k ind :
    (u <- py_itemgetter_new ind ;; t <- g_get_throughput_sum N k ;; o <- BalanceGen.py_itemgetter t ind ;; g_to_list o)
    = getmany (tp_sum N k) ind.
  Proof.
    rewrite g_get_throughput_sum_eq. cbn [bind]. apply py_getmany_eq.
  Qed.
End Prelude.
