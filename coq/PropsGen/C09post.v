(* C09 -- translator tie (T) for the POST-PROCESSING stage of osaca/parser/parser_x86att.py, operands.
   Compiled by the check (harness/parsepost_tie.py) against PostX86Gen.v, regenerated from the CURRENT source on every run (OVC).
       translated process_operand (grammar result of a written operand) = embedding (hand model's view of the operand)
   for registers (the opmask / zeroing is dropped), immediates ($12, $-0x1F: int(text, 0)), identifiers (foo / $foo), memory
   references disp(base,index,scale){%k} (integer or identifier displacement, scale int(text, 0), default 1) and the bare absolute
   address (int(text, 0) in the try block), for EVERY oracle.  grx_op is validated against real pyparsing output and den_xwop
   against the generated AST on the generated lines of every run.
   PARTIAL: segment overrides, `*` forms, relocations and numeric labels are translated and tied by evaluation only (stage b). *)
From Coq Require Import String Ascii List Bool ZArith NArith Lia.
From OV Require Import Model.PyString Model.PyDyn Model.PyPost Model.LexA64 Model.ParseA64 Model.SyntaxA64 Model.PostA64 Model.PostX86.
From OV Require Import Proofs.PyDyn Proofs.PyPost.
From OV Require Model.ParseX86.
From OVC Require Import PostX86Gen.
Import ListNotations.
Open Scope string_scope.

Arguments num_word : simpl never.
Arguments num_value : simpl never.
Arguments int_of_string : simpl never.
Arguments String.eqb : simpl nomatch.

Ltac zhead := match goal with |- (let x := ?F in @?B x) = ?R => change ((B F) = R); cbv beta end.
Ltac run facts := repeat progress (cbn beta iota delta; rewrite ?list_index_0, ?list_index_1; facts; try zhead);
                  repeat progress (cbn; facts).

Lemma postx_reg : forall orc n m, x_process_operand orc (grx_op (XReg n m)) = Ok (embx_op (den_xwop (XReg n m))).
Proof. intros orc n [[k [|]]|]; reflexivity. Qed.

Lemma postx_imm : forall orc n, num_okb n = true -> x_process_operand orc (grx_op (XImm n)) = Ok (embx_op (den_xwop (XImm n))).
Proof. intros orc n H. cbn. rewrite (int_num_word n H). reflexivity. Qed.

Lemma postx_ident : forall orc b s, x_process_operand orc (grx_op (XIdent b s)) = Ok (embx_op (den_xwop (XIdent b s))).
Proof. intros orc [|] s; reflexivity. Qed.

Lemma postx_abs : forall orc n, num_okb n = true -> x_process_operand orc (grx_op (XAbs n)) = Ok (embx_op (den_xwop (XAbs n))).
Proof. intros orc n H. pose proof (int_num_word n H) as K. destruct n as [neg [|] d]; run ltac:(rewrite ?K); reflexivity. Qed.

Lemma postx_mem : forall orc d b i sc k, xwop_okb (XMem d b i sc k) = true ->
  x_process_operand orc (grx_op (XMem d b i sc k)) = Ok (embx_op (den_xwop (XMem d b i sc k))).
Proof.
  intros orc d b i sc k H. cbn [xwop_okb] in H. rewrite !andb_true_iff in H. destruct H as ((Hd & Hs) & Hbi).
  assert (Kd : match d with XDInt n => int_of_string true (num_word n) = Ok (num_value n) | _ => True end).
  { destruct d; auto. apply int_num_word. exact Hd. }
  assert (Ks : match sc with Some n => int_of_string true (num_word n) = Ok (num_value n) | None => True end).
  { destruct sc; auto. apply int_num_word. exact Hs. }
  destruct d as [|dn|ds], b as [rb|], i as [ri|], sc as [sn|], k as [m|]; try discriminate;
    run ltac:(rewrite ?Kd, ?Ks); reflexivity.
Qed.

Theorem C09post_operand_partial : forall orc o, xwop_okb o = true ->
  x_process_operand orc (grx_op o) = Ok (embx_op (den_xwop o)).
Proof.
  intros orc [n m|n|b s|d b i sc k|n] H.
  - apply postx_reg.
  - apply postx_imm; exact H.
  - apply postx_ident.
  - apply postx_mem; exact H.
  - apply postx_abs; exact H.
Qed.
Print Assumptions C09post_operand_partial.

(* non-vacuity: -0x1F is -31, the scale text "8" is the integer 8, an omitted scale is 1, the mask is dropped *)
Example C09post_nonvacuous :
  let o := XMem (XDInt (mknum true true "1F")) (Some "rax") (Some "Rbx") (Some (mknum false false "8")) (Some "k1") in
  xwop_okb o = true /\
  (exists f off, forall orc, x_process_operand orc (grx_op o) = Ok (PObj "MemoryOperand" 0 f) /\
     assoc "_scale" f = Some (PInt 8) /\ assoc "_offset" f = Some off /\ py_getattr off "_value" = Ok (PInt (-31)) /\
     assoc "_mask" f = Some PNone) /\
  embx_op (den_xwop (XMem XDNone None (Some "rbx") None None)) = mk_xmem PNone PNone (xreg "rbx") (PInt 1) PNone.
Proof.
  cbv zeta. split; [reflexivity|]. split; [|reflexivity]. eexists. eexists. intros orc.
  rewrite C09post_operand_partial by reflexivity. vm_compute. repeat split.
Qed.
