(* Property C11 -- translator tie (T) for the statement of osaca.py:inspect that chooses the kernel
   (`if args.lines: line_range = get_line_range(args.lines); kernel = [lines whose number is in line_range]
    else: kernel = reduce_to_section(parsed_code, isa)`), REGENERATED on every run into Gen/InspectGen.v by
   tools/gen_c11b.py.  get_line_range is the translated Gen/LineRange.v (tools/gen_c11.py, PropsGen/C11.v),
   reduce_to_section the translated Gen/MarkerGen.v (PropsGen/C11gen.v, compiled before this file). *)
From Coq Require Import String Ascii List Bool Arith ZArith Lia.
From OV Require Model.PyString.
From OV Require Import Model.Select Proofs.Select Model.PyLines Model.PyMarker Proofs.PyMarker Gen.LineRange Gen.MarkerGen Gen.InspectGen.
From OV Require Props.C11.
From OV Require Import PropsGen.C11gen.
Import ListNotations.
Local Open Scope list_scope.

(* ================================================================== osaca.py:inspect, the selection statement *)
Lemma g_inspect_select_is_model (lines_arg : option string) parsed name :
  g_inspect_select lines_arg parsed name =
  if opt_str_truth lines_arg
  then match lines_arg with
       | Some s => r <- inj (get_line_range s) ;; Ok (select_lines r parsed)
       | None => Err EAttr
       end
  else g_reduce_to_section parsed name.
Proof.
  unfold g_inspect_select. destruct (opt_str_truth lines_arg) eqn:Ht.
  - destruct lines_arg as [s|]; [|discriminate]. cbn [py_some bind].
    destruct (inj (get_line_range s)) as [r|err]; cbn [bind]; [|reflexivity].
    rewrite filter_select. reflexivity.
  - destruct (g_reduce_to_section parsed name); reflexivity.
Qed.

(* ================================================================== property theorems *)
(* the translated statement: --lines given (a non-empty string) -> filter by the expanded range;
   otherwise the marked section *)
Theorem C11gen_inspect_select_is_model : forall (lines_arg : option string) parsed name,
  g_inspect_select lines_arg parsed name =
  if opt_str_truth lines_arg
  then match lines_arg with
       | Some s => r <- inj (get_line_range s) ;; Ok (select_lines r parsed)
       | None => Err EAttr
       end
  else g_reduce_to_section parsed name.
Proof. exact g_inspect_select_is_model. Qed.
Print Assumptions C11gen_inspect_select_is_model.

(* --lines: the translated statement of inspect selects exactly the body when the items of the argument cover the
   body's line numbers and no other line's (get_line_range itself is the translated Gen/LineRange.v) *)
Definition lr_items (s : string) : list string := py_split_char ","%char (py_replace_char ":"%char "-"%char s).

Theorem C11gen_inspect_lines_selects : forall s r name f,
  get_line_range s = Select.Ok r ->
  g_inspect_select (Some s) f name = Ok (select_lines r f).
Proof.
  intros s r name f H. rewrite g_inspect_select_is_model.
  destruct s as [|c s']; [vm_compute in H; discriminate|].
  cbn [opt_str_truth]. rewrite H. reflexivity.
Qed.
Print Assumptions C11gen_inspect_lines_selects.

Theorem C11gen_inspect_lines_exact : forall s r name pro body epi,
  get_line_range s = Select.Ok r ->
  (forall l, In l body -> In (Z.of_nat (l_number l)) r) ->
  (forall l, In l (pro ++ epi) -> ~ In (Z.of_nat (l_number l)) r) ->
  g_inspect_select (Some s) (pro ++ body ++ epi) name = Ok body.
Proof.
  intros s r name pro body epi H Hb Ho. rewrite (C11gen_inspect_lines_selects s r name _ H).
  rewrite (select_exact_lemma r pro body epi Hb Ho). reflexivity.
Qed.
Print Assumptions C11gen_inspect_lines_exact.

(* without --lines (None or the empty string) inspect takes the marked section *)
Theorem C11gen_inspect_without_lines : forall name f,
  g_inspect_select None f name = g_reduce_to_section f name /\
  g_inspect_select (Some ""%string) f name = g_reduce_to_section f name.
Proof. intros. rewrite !g_inspect_select_is_model. split; reflexivity. Qed.
Print Assumptions C11gen_inspect_without_lines.

(* the three ways of naming a kernel select the same lines: marked file, the same file with --lines naming the
   body's lines, a file containing only the body *)
Theorem C11gen_three_selections_agree : forall i name s r pro sm body em epi,
  PyString.py_lower name = isa_name i ->
  no_marker false i pro -> no_marker false i body ->
  marker_min i val_start c_start sm -> marker_min i val_end c_end em ->
  get_line_range s = Select.Ok r ->
  (forall l, In l body -> In (Z.of_nat (l_number l)) r) ->
  (forall l, In l ((pro ++ sm) ++ em ++ epi) -> ~ In (Z.of_nat (l_number l)) r) ->
  let file := pro ++ sm ++ body ++ em ++ epi in
  g_inspect_select None file name = Ok body /\
  g_inspect_select (Some s) file name = Ok body /\
  g_inspect_select None body name = Ok body.
Proof.
  intros i name s r pro sm body em epi Hn Hp Hb Hs He Hr Hin Hout file. subst file. repeat split.
  - destruct (C11gen_inspect_without_lines name (pro ++ sm ++ body ++ em ++ epi)) as [-> _].
    apply (C11gen_marked_exact i); assumption.
  - replace (pro ++ sm ++ body ++ em ++ epi) with ((pro ++ sm) ++ body ++ (em ++ epi)) by (rewrite <- !app_assoc; reflexivity).
    apply (C11gen_inspect_lines_exact s r); assumption.
  - destruct (C11gen_inspect_without_lines name body) as [-> _].
    apply (C11gen_unmarked_whole i); assumption.
Qed.
Print Assumptions C11gen_three_selections_agree.

(* ================================================================== non-vacuity *)
Import Props.C11.
Example C11gen_lines_nonvacuous :
  g_inspect_select (Some "2-3,5") [instr "a" 1; instr "b" 2; instr "c" 3; instr "d" 4; instr "e" 5] "x86"
    = Ok [instr "b" 2; instr "c" 3; instr "e" 5] /\
  g_inspect_select (Some "2-") [instr "a" 1] "x86" = Err EValue /\
  g_inspect_select None (x_start3 ++ [instr "b" 7] ++ x_end3 8) "x86" = Ok [instr "b" 7].
Proof. repeat split; vm_compute; reflexivity. Qed.
