(* Property C11, --lines part.  get_line_range is REGENERATED from /repo/osaca/osaca.py on every run
   (Gen/LineRange.v, tools/gen_c11.py); the theorems below are re-checked against that text. *)
From Coq Require Import String Ascii List Bool Arith ZArith Lia.
From OV Require Import Model.PyString Model.Select Model.PyLines Proofs.Select Gen.LineRange.
Import ListNotations.
Local Open Scope list_scope.

(* the comma separated items of a --lines string, ":" and "-" being synonyms *)
Definition items (s : string) : list string := py_split_char ","%char (py_replace_char ":"%char "-"%char s).

Definition part (item : string) (k : nat) : result Z := bind (py_index (py_split_char "-"%char item) k) py_int10.

(* the specification, item by item: a single number names itself, a-b names a..b inclusive *)
Definition item_covers (item : string) (n : Z) : Prop :=
  if py_substr "-" item
  then exists a b, part item 0 = Ok a /\ part item 1 = Ok b /\ (a <= n <= b)%Z
  else py_int10 item = Ok n.
(* items that Python accepts *)
Definition item_ok (item : string) : Prop :=
  if py_substr "-" item then (exists a, part item 0 = Ok a) /\ (exists b, part item 1 = Ok b)
  else exists n, py_int10 item = Ok n.

Definition expand (item : string) : result (list Z) :=
  if py_substr "-" item then
    bind (part item 0) (fun a => bind (part item 1) (fun b => Ok (py_range a (b + 1))))
  else bind (py_int10 item) (fun n => Ok [n]).

Fixpoint expand_all (l : list string) : result (list Z) :=
  match l with
  | [] => Ok []
  | x :: r => bind (expand x) (fun v => bind (expand_all r) (fun vs => Ok (v ++ vs)))
  end.

Lemma in_py_range n a b : In n (py_range a b) <-> (a <= n < b)%Z.
Proof.
  unfold py_range. rewrite in_map_iff. split.
  - intros (k & <- & Hk). apply in_seq in Hk. lia.
  - intros H. exists (Z.to_nat (n - a)). split; [lia|]. apply in_seq. lia.
Qed.

Lemma glr_is_expand_all s : get_line_range s = expand_all (items s).
Proof.
  unfold get_line_range. fold (items s).
  assert (G : forall l acc,
    py_fold l acc
      (fun line lines_int =>
        if py_substr "-" line then
          bind (py_index (py_split_char "-"%char line) 0) (fun t1_ =>
          bind (py_int10 t1_) (fun t2_ =>
          let start := t2_ in
          bind (py_index (py_split_char "-"%char line) 1) (fun t3_ =>
          bind (py_int10 t3_) (fun t4_ =>
          let end_ := t4_ in
          let rnge := py_range start (end_ + 1)%Z in
          let lines_int := lines_int ++ rnge in Ok lines_int))))
        else bind (py_int10 line) (fun t5_ => let lines_int := lines_int ++ [t5_] in Ok lines_int))
      (fun lines_int => Ok lines_int)
    = bind (expand_all l) (fun vs => Ok (acc ++ vs))).
  { induction l as [|x r IH]; intros acc; simpl.
    - rewrite app_nil_r. reflexivity.
    - unfold expand, part. destruct (py_substr "-" x).
      + destruct (py_index (py_split_char "-"%char x) 0) as [t1|]; simpl; auto.
        destruct (py_int10 t1) as [a|]; simpl; auto.
        destruct (py_index (py_split_char "-"%char x) 1) as [t3|]; simpl; auto.
        destruct (py_int10 t3) as [b|]; simpl; auto.
        rewrite IH. destruct (expand_all r); simpl; auto. rewrite app_assoc. reflexivity.
      + destruct (py_int10 x) as [n|]; simpl; auto.
        rewrite IH. destruct (expand_all r); simpl; auto. rewrite <- app_assoc. reflexivity. }
  rewrite G. destruct (expand_all (items s)); reflexivity.
Qed.

Lemma expand_covers item v : expand item = Ok v -> forall n, In n v <-> item_covers item n.
Proof.
  unfold expand, item_covers. destruct (py_substr "-" item).
  - destruct (part item 0) as [a|]; simpl; [|discriminate].
    destruct (part item 1) as [b|]; simpl; [|discriminate].
    intros H n. inversion H; subst. rewrite in_py_range. split.
    + intros Hn. exists a, b. repeat split; auto; lia.
    + intros (a' & b' & Ha & Hb & Hn). inversion Ha; inversion Hb; subst. lia.
  - destruct (py_int10 item) as [k|]; simpl; [|discriminate].
    intros H n. inversion H; subst. simpl. split; [intros [->|[]]; reflexivity | intros E; inversion E; auto].
Qed.

Lemma expand_all_spec l : forall r, expand_all l = Ok r ->
  forall n, In n r <-> exists item, In item l /\ item_covers item n.
Proof.
  induction l as [|x t IH]; simpl; intros r H n.
  - inversion H; subst. simpl. split; [contradiction | intros (i & [] & _)].
  - destruct (expand x) as [v|] eqn:Ex; simpl in H; [|discriminate].
    destruct (expand_all t) as [vs|]; simpl in H; [|discriminate]. inversion H; subst.
    rewrite in_app_iff, (expand_covers x v Ex n), (IH vs eq_refl n). split.
    + intros [Hx | (i & Hi & Hc)]; [exists x; auto | exists i; auto].
    + intros (i & [<- | Hi] & Hc); [left; exact Hc | right; exists i; auto].
Qed.

Lemma expand_ok item : item_ok item -> exists v, expand item = Ok v.
Proof.
  unfold item_ok, expand. destruct (py_substr "-" item).
  - intros ((a & ->) & (b & ->)). simpl. eauto.
  - intros (n & ->). simpl. eauto.
Qed.

Lemma expand_all_ok l : (forall item, In item l -> item_ok item) -> exists r, expand_all l = Ok r.
Proof.
  induction l as [|x t IH]; simpl; intros H; [eauto|].
  destruct (expand_ok x (H x (or_introl eq_refl))) as (v & ->). simpl.
  destruct IH as (vs & ->); [intros; apply H; auto|]. simpl. eauto.
Qed.

(* ---------------------------------------------------------------- property theorems *)
Theorem line_range_spec : forall s r, get_line_range s = Ok r ->
  forall n, In n r <-> exists item, In item (items s) /\ item_covers item n.
Proof. intros s r H. rewrite glr_is_expand_all in H. apply expand_all_spec. exact H. Qed.
Print Assumptions line_range_spec.

Theorem line_range_defined : forall s,
  (forall item, In item (items s) -> item_ok item) -> exists r, get_line_range s = Ok r.
Proof. intros s H. rewrite glr_is_expand_all. apply expand_all_ok. exact H. Qed.
Print Assumptions line_range_defined.

(* --lines selects exactly the body when its items cover the body's line numbers and no other line's *)
Theorem lines_select_by_range : forall s r pro body epi,
  get_line_range s = Ok r ->
  (forall l, In l body -> exists item, In item (items s) /\ item_covers item (Z.of_nat (l_number l))) ->
  (forall l, In l (pro ++ epi) -> forall item, In item (items s) -> ~ item_covers item (Z.of_nat (l_number l))) ->
  select_lines r (pro ++ body ++ epi) = body.
Proof.
  intros s r pro body epi H Hb Ho. apply select_exact_lemma.
  - intros l Hl. apply (line_range_spec s r H). apply Hb. exact Hl.
  - intros l Hl Hin. apply (line_range_spec s r H) in Hin. destruct Hin as (item & Hi & Hc). exact (Ho l Hl item Hi Hc).
Qed.
Print Assumptions lines_select_by_range.

(* ---------------------------------------------------------------- non-vacuity / examples *)
Example line_range_examples :
  get_line_range "5,7-9,12:13" = Ok [5; 7; 8; 9; 12; 13]%Z /\
  get_line_range " 3 , 10-10" = Ok [3; 10]%Z /\
  get_line_range "9-7" = Ok [] /\
  get_line_range "5-" = Err ValueError /\ get_line_range "" = Err ValueError /\ get_line_range "a" = Err ValueError /\
  items "5,7-9,12:13" = ["5"; "7-9"; "12-13"]%string.
Proof. repeat split; vm_compute; reflexivity. Qed.
Example item_covers_example : item_covers "7-9" 8 /\ item_covers "12" 12 /\ item_ok "7-9" /\ ~ item_covers "7-9" 10.
Proof.
  repeat split.
  - exists 7%Z, 9%Z. vm_compute. repeat split; discriminate.
  - exists 7%Z. reflexivity.
  - exists 9%Z. reflexivity.
  - intros (a & b & Ha & Hb & Hn). vm_compute in Ha, Hb. inversion Ha; inversion Hb; subst. lia.
Qed.
