(* C10 -- translator tie (T) for the POST-PROCESSING stage of osaca/parser/parser_AArch64.py.
   Compiled by the check (harness/parsepost_tie.py) against PostA64Gen.v, which tools/gen_parsepost.py regenerates from the
   CURRENT source on every run (logical path OVC), after PropsGen/C10postOps.v (operand lemmas).

   For every written syntax tree of the language of the property (Model/SyntaxA64.v, wline_okb fx_all):
       translated post-processing (grammar_result tree) = embedding (hand model's meaning of the tree)
   where grammar_result = Model/PostA64.v gr_* (validated against real pyparsing output on every generated line of every
   run) and the embedding lists every instance attribute of the returned objects.  Together with the round-trip
   theorems of Props/C10.v (parse_line (render tree) = Parsed (denote tree)) this reads: parse_line = (regenerated
   post-processing) after (validated grammar stage).
   PARTIAL: proved for every oracle are (1) process_operand on every operand but register lists / ranges and (2) parse_line on
   label, directive and comment lines (classification order, try/except cascade, every field of the returned form).  The
   statement for instruction lines (parse_instruction: the five operand slots, list expansion) is the same equation; it is
   tied by EVALUATING it on every generated tree (harness/parsepost_tie.py stage c) and instantiated in C10post_nonvacuous. *)
From Coq Require Import String Ascii List Bool ZArith NArith Lia.
From OV Require Import Model.PyString Model.PyDyn Model.PyPost Model.LexA64 Model.ParseA64 Model.SyntaxA64 Model.PostA64.
From OV Require Import Proofs.PyDyn Proofs.PyPost Proofs.ParseA64Regs.
From OVC Require Import PostA64Gen C10postOps.
Import ListNotations.
Open Scope string_scope.

Definition nolist (o : wop) : bool := match o with WList _ _ | WRange _ _ _ => false | _ => true end.

(* ------------------------------------------------------------------ one operand *)
Theorem C10post_operand_partial : forall orc o, wop_okb fx_all o = true -> nolist o = true ->
  g_process_operand orc (gr_wop o) = Ok (emb_wop o).
Proof.
  intros orc o H N. destruct o as [r|els i|a b i|h n|h f|h w|w|b t c]; try discriminate.
  - apply post_wreg; exact H.
  - apply post_int; exact H.
  - apply post_flt.
  - apply post_ident.
  - apply post_cond.
  - apply post_mem; exact H.
Qed.
Print Assumptions C10post_operand_partial.

(* an operand that is not a list denotes exactly one object *)
Lemma single_obj : forall o, nolist o = true ->
  exists c f, emb_wop o = PObj c 0 f /\ map emb_operand (den_wop o) = [PObj c 0 f] /\ key_eqb "list" c = false.
Proof.
  intros o N. destruct o as [r|els i|a b i|h n|h f|h w|w|b t c]; try discriminate;
    try (eexists; eexists; repeat split; reflexivity).
  destruct f as [neg ip fp [[[e sg] d]|] [sf|]]; eexists; eexists; repeat split; reflexivity.
Qed.

Arguments words_go : simpl never.
Arguments String.concat : simpl never.
Arguments comment_text : simpl never.

Lemma gr_comment_join : forall c,
  match c with
  | None => True
  | Some raw => join_strs " " (map PStr (words_go raw "")) = Ok (comment_text raw)
  end.
Proof. intros [raw|]; auto. apply join_words. Qed.

(* ------------------------------------------------------------------ parse_instruction behind the grammar *)
(* ------------------------------------------------------------------ parse_line behind the grammar *)
Definition not_instr (l : wline) : bool := match l with WLInstr _ _ _ => false | _ => true end.
Arguments g_parse_instruction : simpl never.

Lemma assoc_more : forall x k rest, dirx_ok x = true -> In k ["name"; "parameters"; "comment"] ->
  assoc k (dx_more x ++ rest) = assoc k rest.
Proof.
  intros x k rest H I. unfold dirx_ok in H. induction (dx_more x) as [|[k' v] t IH]; [reflexivity|].
  cbn [forallb fst] in H. apply andb_true_iff in H. destruct H as [H1 H2]. cbn [app assoc].
  assert (E : key_eqb k k' = false).
  { rewrite key_eqb_eq. apply negb_true_iff in H1. apply Bool.not_true_iff_false. intro Q. apply String.eqb_eq in Q. subst k'.
    cbn [existsb] in H1. cbn [In] in I. destruct I as [<-|[<-|[<-|[]]]]; cbn in H1; discriminate. }
  rewrite E. apply IH. exact H2.
Qed.

Theorem C10post_line_partial : forall l x line ln,
  not_instr l = true -> dirx_ok x = true ->
  g_parse_line (gr_stage l x) line ln = Ok (emb_form (denote l) x line ln).
Proof.
  intros l x line ln N X. destruct l as [mn ops c|n c|n ps c|raw]; [discriminate| | |].
  - (* label line *)
    pose proof (gr_comment_join c) as J. destruct c as [raw|]; run ltac:(rewrite ?J, ?Pos2Nat.inj_1); reflexivity.
  - (* directive line: parameters, further keys and comment as the grammar delivered them *)
    destruct x as [pv more [ws|]]; cbn [dx_comment dx_params dx_more] in *.
    + pose proof (assoc_more (mkdirx pv more (Some ws)) "comment" [("comment", PList (map PStr ws))] X) as M. cbn [dx_more] in M.
      pose proof (join_words ws) as J.
      run ltac:(rewrite ?M by (cbn; tauto); rewrite ?J, ?Pos2Nat.inj_1). reflexivity.
    + pose proof (assoc_more (mkdirx pv more None) "comment" [] X) as M. cbn [dx_more] in M.
      run ltac:(rewrite ?M by (cbn; tauto); rewrite ?Pos2Nat.inj_1). reflexivity.
  - (* comment line *)
    pose proof (join_words (words_go raw "")) as J. run ltac:(rewrite ?J, ?Pos2Nat.inj_1). reflexivity.
Qed.
Print Assumptions C10post_line_partial.

(* ------------------------------------------------------------------ non-vacuity *)
Example C10post_nonvacuous :
  let l := WLInstr "ldr" [WReg (RPlain (mkwreg "x" 0 None));
                          WMem (BSp "SP") (MTIdx "W" 2 (Some (mkwext "SXTW" (Some (true, mknum false false "3"))))) MCPre] (Some " a  b") in
  wline_okb fx_all l = true /\
  g_parse_line (gr_stage l (mkdirx PNone [] None)) (PStr "ldr x0, [SP, W2, SXTW #3]! // a  b") (PInt 7) =
  Ok (emb_form (denote l) (mkdirx PNone [] None) (PStr "ldr x0, [SP, W2, SXTW #3]! // a  b") (PInt 7)) /\
  (exists f, g_parse_line (gr_stage l (mkdirx PNone [] None)) (PStr "") PNone = Ok (PObj "InstructionForm" 0 f) /\
             assoc "_comment_id" f = Some (PStr "a b") /\ assoc "_mnemonic" f = Some (PStr "ldr")).
Proof. vm_compute. repeat split. eexists. repeat split. Qed.
