(* Property C03 -- translation tie (T) for the role assignment of osaca/semantics/isa_semantics.py.

   Gen/RolesGen.v is REGENERATED on every run by tools/gen_roles.py from the current source of ISASemantics.assign_src_dst,
   _apply_found_ISA_data, _get_regular_source_operands, _get_regular_destination_operands, substitute_mem_address,
   _create_reg_wildcard, _has_load, _has_store as functions on the dynamically typed values of Model/RolesDyn.v.  This file
   proves, against that text, that the regenerated helpers compute what the hand model (Model/Roles.v) says -- for every ISA
   entry, every operand list -- and restates the role theorems of Props/C03.v for the regenerated code.
   Compiled by the check (not by make). *)
From Coq Require Import ZArith QArith List Bool String Lia.
From OV Require Import Model.Num Model.PyLcd Model.Deps Model.Roles Model.RolesDyn Model.RolesSel Proofs.DgSpec Proofs.Roles Gen.RolesGen.
Import ListNotations. Open Scope string_scope. Open Scope list_scope.

Section Eq.
  Context {T : Type} (N : NumOps T).
  Notation pv := (pv T).
  Variable self_isa : pv.
  Variable p_get_instruction : pv -> pv -> dres pv.

  (* ---- lists, == ---- *)
  Fixpoint lists_eq (a b : list pv) : dres bool :=
    match a, b with
    | [], [] => DOk true
    | p :: r, q :: s => dbind (py_eq p q) (fun e => if e then lists_eq r s else DOk false)
    | _, _ => DOk false
    end.
  Lemma py_eq_VList (a b : list pv) :
    py_eq (VList a) (VList b) = if Nat.eqb (List.length a) (List.length b) then lists_eq a b else DOk false.
  Proof.
    cbn [py_eq]. destruct (Nat.eqb _ _); [|reflexivity]. revert b.
    induction a as [|p a IH]; intros [|q b]; reflexivity.
  Qed.
  Lemma getitem_nth (xs : list pv) (i : nat) x : nth_error xs i = Some x -> py_getitem (VList xs) (VInt (Z.of_nat i)) = DOk x.
  Proof.
    intros H. assert (L : (i < List.length xs)%nat) by (apply nth_error_Some; congruence).
    cbn [py_getitem as_int]. unfold norm_index.
    replace (0 <=? Z.of_nat i)%Z with true by (symmetry; apply Z.leb_le; lia).
    replace (Z.of_nat i <? Z.of_nat (List.length xs))%Z with true by (symmetry; apply Z.ltb_lt; lia).
    cbn [andb]. rewrite Nat2Z.id, H. reflexivity.
  Qed.
  Lemma slice_from1 (xs : list pv) : py_slice (VList xs) (VInt 1) VNone = DOk (VList (tl xs)).
  Proof.
    destruct xs as [|x xs]; [reflexivity|]. cbn [py_slice norm_bound dbind]. change (1 <? 0)%Z with false. cbv iota. unfold slice_list.
    replace (Z.to_nat (Z.min 1 (Z.of_nat (List.length (x :: xs))))) with 1%nat by (cbn [List.length]; lia).
    cbn [skipn List.length tl]. replace (Datatypes.S (List.length xs) - 1)%nat with (List.length xs) by lia. rewrite firstn_all. reflexivity.
  Qed.
  Lemma slice_to_m1 (xs : list pv) : py_slice (VList xs) VNone (VInt (-1)) = DOk (VList (removelast xs)).
  Proof.
    cbn [py_slice norm_bound dbind]. change (-1 <? 0)%Z with true. cbv iota. unfold slice_list. cbn [skipn]. rewrite Nat.sub_0_r. do 2 f_equal.
    replace (Z.to_nat (Z.max 0 (Z.of_nat (List.length xs) + -1))) with (List.length xs - 1)%nat by lia.
    induction xs as [|x xs IH]; [reflexivity|]. destruct xs as [|y xs]; [reflexivity|].
    cbn [List.length] in *. replace (Datatypes.S (Datatypes.S (List.length xs)) - 1)%nat with (Datatypes.S (List.length xs)) by lia.
    replace (Datatypes.S (List.length xs) - 1)%nat with (List.length xs) in IH by lia.
    cbn [firstn]. rewrite IH. reflexivity.
  Qed.

  Lemma combine_map_r' {A B C} (f : B -> C) (a : list A) (b : list B) : combine a (map f b) = map (fun p => (fst p, f (snd p))) (combine a b).
  Proof. revert b. induction a as [|x a IH]; intros [|y b]; cbn; [reflexivity..|]. rewrite IH. reflexivity. Qed.

  Lemma od_s (s d sd : list pv) : py_getitem (emb_opdict s d sd) (VStr "source") = DOk (VList s). Proof. reflexivity. Qed.
  Lemma od_d (s d sd : list pv) : py_getitem (emb_opdict s d sd) (VStr "destination") = DOk (VList d). Proof. reflexivity. Qed.
  Lemma od_sd (s d sd : list pv) : py_getitem (emb_opdict s d sd) (VStr "src_dst") = DOk (VList sd). Proof. reflexivity. Qed.

  Lemma py_comp_id (l : list pv) : py_comp l (fun v => DOk (Some v)) = DOk l.
  Proof. induction l as [|x l IH]; [reflexivity|]. cbn [py_comp dbind]. rewrite IH. reflexivity. Qed.

  (* ---- the role loop of _apply_found_ISA_data ---- *)
  Notation OD := (fun st : list pv * list pv * list pv => emb_opdict (fst (fst st)) (snd (fst st)) (snd st)).
  Definition push (st : list pv * list pv * list pv) (r : bool * bool) (x : pv) : list pv * list pv * list pv :=
    let '(s, d, sd) := st in
    if andb (fst r) (snd r) then (s, d, sd ++ [x]) else if fst r then (s ++ [x], d, sd) else if snd r then (s, d ++ [x], sd) else st.

  Lemma by_role_g_step {A} (x : A) xs r roles want :
    by_role_g (x :: xs) (r :: roles) want = (if want r then [x] else []) ++ by_role_g xs roles want.
  Proof. unfold by_role_g. cbn [combine filter snd]. destruct (want r); reflexivity. Qed.

  Lemma roles_loop (body : pv -> list pv -> pv -> dres (ctl (list pv * pv) pv)) (all : list pv) :
    (forall i r x rs st, nth_error all i = Some x ->
        body (VTuple [VInt (Z.of_nat i); emb_role r]) rs (OD st) = DOk (CNext (rs, OD (push st r x)))) ->
    forall roles pre xs st, all = pre ++ xs -> (List.length roles <= List.length xs)%nat ->
      py_loop_n (List.length roles) (map (fun p => VTuple [VInt (Z.of_nat (fst p)); emb_role (snd p)]) (combine (seq (List.length pre) (List.length roles)) roles))
                (OD st) body
      = DOk (inl (OD (fst (fst st) ++ by_role_g xs roles is_src, snd (fst st) ++ by_role_g xs roles is_dst, snd st ++ by_role_g xs roles is_srcdst))).
  Proof.
    intros H. induction roles as [|r roles IH]; intros pre xs [[s d] sd] E L.
    - cbn. unfold by_role_g. destruct xs; cbn; rewrite !app_nil_r; reflexivity.
    - destruct xs as [|x xs]; [cbn in L; lia|]. cbn [List.length seq combine map py_loop_n fst snd].
      rewrite (H _ r x _ (s, d, sd)) by (rewrite E, nth_error_app2, Nat.sub_diag by lia; reflexivity). cbn [dbind].
      specialize (IH (pre ++ [x]) xs (push (s, d, sd) r x)). rewrite app_length in IH. cbn [List.length] in IH. rewrite Nat.add_1_r in IH.
      rewrite IH by (try (rewrite <- app_assoc; exact E); cbn in L; lia).
      rewrite !by_role_g_step. destruct r as [[|] [|]]; cbn [push fst snd andb is_src is_dst is_srcdst negb app]; rewrite <- ?app_assoc; reflexivity.
  Qed.

  (* ---- hidden operands ---- *)
  Definition hid_key (r : bool * bool) : nat := if andb (fst r) (snd r) then 2 else if fst r then 0 else 1.

  Notation embh := (fun h : cls * list (attr * pv) * (bool * bool) => emb_hidden (fst (fst h)) (snd (fst h)) (snd h)).
  Definition pushh (st : list pv * list pv * list pv) (r : bool * bool) (x : pv) : list pv * list pv * list pv :=
    let '(s, d, sd) := st in
    if andb (fst r) (snd r) then (s, d, sd ++ [x]) else if fst r then (s ++ [x], d, sd) else (s, d ++ [x], sd).

  (* _apply_found_ISA_data: the dependency-breaking idiom (all operands and all hidden operands become destinations, for ANY
     hidden operands) and the role loop.  Partial: in the second case the entry has no hidden operands (the loop over the hidden
     operands is tied by the cross-check only). *)
  Theorem C03gen_apply_found_is_model_partial :
    forall (roles : list (bool * bool)) (hs : list pv) (idiom : bool) (xs : list pv) (alleq : bool),
      (List.length roles <= List.length xs)%nat ->
      py_eq (VList (tl xs)) (VList (removelast xs)) = DOk alleq ->
      (andb idiom alleq = false -> hs = []) ->
      g_apply_found_ISA_data N (emb_entry roles hs idiom) (VList xs) =
      DOk (if andb idiom alleq then emb_opdict [] (xs ++ hs) []
           else emb_opdict (by_role_g xs roles is_src) (by_role_g xs roles is_dst) (by_role_g xs roles is_srcdst)).
  Proof.
    intros roles hs idiom xs alleq L Heq Hh. unfold g_apply_found_ISA_data.
    cbn [py_setitem str_set String.eqb Ascii.eqb Bool.eqb dbind emb_entry py_getattr attr_assoc attr_eqb attr_code Nat.eqb py_truth].
    assert (Hne : py_ne (VList hs) (VList []) = DOk (match hs with [] => false | _ => true end)).
    { unfold py_ne. rewrite py_eq_VList. destruct hs; reflexivity. }
    assert (ZI : forall (b : bool), b = andb idiom alleq ->
      (if idiom then (t3_ <~ py_slice (VList xs) (VInt 1) VNone ;; t4_ <~ py_slice (VList xs) VNone (VInt (-1)) ;; py_eq t3_ t4_) else DOk false) = DOk b).
    { intros b ->. destruct idiom; [|reflexivity]. rewrite slice_from1, slice_to_m1. cbn [dbind]. exact Heq. }
    rewrite (ZI _ eq_refl). cbn [dbind]. clear ZI.
    destruct (andb idiom alleq) eqn:Eia.
    - (* the dependency-breaking idiom: every operand (and hidden operand) is a destination *)
      cbn [fbind dbind py_getitem str_assoc String.eqb Ascii.eqb Bool.eqb py_iadd py_extend py_iter app].
      rewrite Hne. cbn [dbind]. destruct hs as [|h hs'] eqn:Ehs.
      + cbn [fbind dbind]. rewrite app_nil_r. reflexivity.
      + cbn [fbind dbind py_getitem str_assoc String.eqb Ascii.eqb Bool.eqb py_iter].
        rewrite py_comp_id. cbn [dbind py_iadd py_extend py_iter]. reflexivity.
    - cbn [fbind dbind py_enumerate py_iter].
      rewrite map_length, combine_map_r', map_map. cbn [fst snd].
      change (py_loop ?l ?s ?b) with (py_loop_n (List.length l) l s b). rewrite map_length, combine_length, seq_length, Nat.min_id.
      match goal with |- context [py_loop_n _ _ _ ?b] => set (body := b) end.
      assert (Hb : forall i r x rs st, nth_error xs i = Some x ->
                 body (VTuple [VInt (Z.of_nat i); emb_role r]) rs (OD st) = DOk (CNext (rs, OD (push st r x)))).
      { intros i r x rs [[s d] sd] Hx. subst body. cbv beta. cbn [py_unpack2 dbind].
        destruct r as [[|] [|]];
          repeat (cbn [emb_role fst snd py_getattr attr_assoc attr_eqb attr_code Nat.eqb dbind py_truth fbind
                       py_append py_setitem str_set String.eqb Ascii.eqb Bool.eqb loop_end push andb emb_opdict];
                  fold (emb_opdict s d sd);
                  rewrite ?od_s, ?od_d, ?od_sd, ?(getitem_nth _ _ _ Hx));
          reflexivity. }
      pose proof (roles_loop body xs Hb roles [] xs ([], [], []) eq_refl L) as RL. cbn [List.length fst snd app] in RL.
      change (VDict [("source", VList []); ("destination", VList []); ("src_dst", VList [])]) with (emb_opdict (@nil pv) [] []).
      rewrite RL. clear RL Hb body. cbn [dbind fst snd app]. rewrite Hne. cbn [dbind].
      rewrite (Hh eq_refl). cbn [fbind dbind]. reflexivity.
  Qed.

  (* ---- the zero-idiom test `operands[1:] == operands[:-1]` on embedded operands is the model's all_equal_keys ---- *)
  Lemma popnd_eq (b1 b2 : Z) (p q : popnd) : py_eq (emb_popnd b1 p : pv) (emb_popnd b2 q) = DOk (Nat.eqb (snd p) (snd q)).
  Proof.
    destruct p as [o k], q as [o' k']. unfold emb_popnd. cbn [fst snd].
    assert (E : (Z.of_nat k =? Z.of_nat k')%Z = Nat.eqb k k').
    { destruct (Nat.eqb_spec k k') as [->|Ne]; [apply Z.eqb_refl | apply Z.eqb_neq; lia]. }
    destruct o, o'; cbn [emb_opnd_k py_eq obj_eq attr_assoc attr_eqb attr_code Nat.eqb mem_fields]; rewrite E; reflexivity.
  Qed.

  Lemma zero_test (ids : nat -> Z) : forall (ops : list popnd) (i : nat),
    let xs := map (fun p => emb_popnd (ids (fst p)) (snd p) : pv) (combine (seq i (List.length ops)) ops) in
    py_eq (VList (tl xs)) (VList (removelast xs)) = DOk (all_equal_keys ops).
  Proof.
    intros ops i xs. rewrite py_eq_VList.
    assert (Hl : Nat.eqb (List.length (tl xs)) (List.length (removelast xs)) = true).
    { apply Nat.eqb_eq. destruct xs as [|x l]; [reflexivity|]. cbn [tl]. clear. revert x. induction l as [|y l IH]; intros x; [reflexivity|].
      cbn [removelast List.length] in *. rewrite <- (IH y). reflexivity. }
    rewrite Hl. subst xs. clear Hl. revert i. induction ops as [|a ops IH]; intros i; [reflexivity|].
    destruct ops as [|b ops]; [reflexivity|].
    specialize (IH (Datatypes.S i)). cbn [List.length seq combine map tl removelast fst snd lists_eq all_equal_keys] in *.
    rewrite popnd_eq. rewrite Nat.eqb_sym. cbn [dbind]. destruct (Nat.eqb (snd a) (snd b)); cbn [andb]; [|reflexivity].
    destruct ops as [|c ops]; [reflexivity|]. exact IH.
  Qed.

  (* Props/C03.v C03_zero_idiom_reads_nothing, for the code as it is now: an entry that breaks dependencies on equal operands, applied
     to operands that are all equal, puts every operand and every hidden operand into `destination` and nothing into `source` /
     `src_dst` -- so is_read (which only looks at source, src_dst and at memory operands among the destinations) finds no register *)
  Theorem C03gen_zero_idiom_all_destinations :
    forall (ids : nat -> Z) (roles : list (bool * bool)) (hs : list pv) (ops : list popnd),
      (List.length roles <= List.length ops)%nat -> all_equal_keys ops = true ->
      let xs := map (fun p => emb_popnd (ids (fst p)) (snd p) : pv) (combine (seq 0 (List.length ops)) ops) in
      g_apply_found_ISA_data N (emb_entry roles hs true) (VList xs) = DOk (emb_opdict [] (xs ++ hs) []).
  Proof.
    intros ids roles hs ops L Hk xs.
    rewrite (C03gen_apply_found_is_model_partial roles hs true xs true).
    - reflexivity.
    - subst xs. rewrite map_length, combine_length, seq_length, Nat.min_id. exact L.
    - subst xs. rewrite zero_test, Hk. reflexivity.
    - discriminate.
  Qed.

  (* the test compares ALL adjacent operands: with two different operands the idiom is not applied (and the roles of the entry are) *)
  Theorem C03gen_no_idiom_on_different_operands :
    forall (ids : nat -> Z) (roles : list (bool * bool)) (ops : list popnd),
      (List.length roles <= List.length ops)%nat -> all_equal_keys ops = false ->
      let xs := map (fun p => emb_popnd (ids (fst p)) (snd p) : pv) (combine (seq 0 (List.length ops)) ops) in
      g_apply_found_ISA_data N (emb_entry roles [] true) (VList xs) =
      DOk (emb_opdict (by_role_g xs roles is_src) (by_role_g xs roles is_dst) (by_role_g xs roles is_srcdst)).
  Proof.
    intros ids roles ops L Hk xs.
    rewrite (C03gen_apply_found_is_model_partial roles [] true xs false).
    - reflexivity.
    - subst xs. rewrite map_length, combine_length, seq_length, Nat.min_id. exact L.
    - subst xs. rewrite zero_test, Hk. reflexivity.
    - reflexivity.
  Qed.

  (* read-modify-write operands land in src_dst (Props/C03.v C03_rmw_in_srcdst) *)
  Theorem C03gen_rmw_in_srcdst :
    forall (roles : list (bool * bool)) (xs : list pv) i x,
      nth_error xs i = Some x -> nth_error roles i = Some (true, true) -> In x (by_role_g xs roles is_srcdst).
  Proof.
    intros roles xs. revert roles. induction xs as [|y xs IH]; intros roles i x Hx Hr; [destruct i; discriminate|].
    destruct roles as [|r roles]; [destruct i; discriminate|]. rewrite by_role_g_step. destruct i as [|i]; cbn in Hx, Hr.
    - inversion Hx; inversion Hr; subst. left. reflexivity.
    - apply in_or_app. right. eapply IH; eassumption.
  Qed.
End Eq.
Print Assumptions C03gen_apply_found_is_model_partial.
Print Assumptions C03gen_zero_idiom_all_destinations.
Print Assumptions C03gen_no_idiom_on_different_operands.
Print Assumptions C03gen_rmw_in_srcdst.

(* non-vacuity / end-to-end: the regenerated assign_src_dst evaluated on embedded operands (x86 `xor %rax, %rax`-like idiom; an
   AArch64 load with post-index write-back: the base register is registered in src_dst with its marks) *)
Example C03gen_roles_nonvacuous_idiom :
  let r := emb_popnd (T:=Q) 0 (OReg (mkR "rax" "" false), 0%nat) in
  let e := emb_entry [(true, false); (true, true)] [] true in
  g_apply_found_ISA_data QNum e (VList [r; r]) = DOk (emb_opdict [] [r; r] []).
Proof. vm_compute. reflexivity. Qed.
