(* C10 -- translator tie (T), AArch64 register lists and ranges: process_register_list + resolve_range_list of the regenerated
   post-processing (PostA64Gen.v) on the grammar result of a written list `{v0.s, v1.s}[i]` / range `{v0.s - v3.s}[i]`
   = the embedding of the hand model's expansion (Model/ParseA64.v range_members / set_index through SyntaxA64.den_wop),
   for EVERY oracle that answers `list_element` on the members of the list as the grammar does (gr_wreg).
   The range is expanded over the NUMBERS int(start) .. int(end) (an empty range when end < start: no wrap-around, on both sides);
   the index is int(index, 0) whenever an index is written, `[0]` included.
   Compiled by the check against the regenerated text (logical path OVC). *)
From Coq Require Import String Ascii List Bool ZArith NArith Lia.
From OV Require Import Model.PyString Model.PyDyn Model.PyPost Model.LexA64 Model.ParseA64 Model.SyntaxA64 Model.PostA64.
From OV Require Import Proofs.PyDyn Proofs.PyPost Proofs.ParseA64Regs.
From OVC Require Import PostA64Gen.
Import ListNotations.
Open Scope string_scope.

Arguments nat_str : simpl nomatch.
Arguments py_lower : simpl never.
Arguments lower : simpl never.
Arguments gr_prefix : simpl never.
Arguments gr_elem_word : simpl never.
Arguments gr_left : simpl never.
Arguments gr_wreg : simpl never.
Arguments emb_operand : simpl never.
Arguments den_wreg : simpl never.
Arguments set_index : simpl never.
Arguments den_idx : simpl never.
Arguments String.eqb : simpl nomatch.
Arguments low : simpl nomatch.
Arguments int_of_string : simpl never.
Arguments string_of_Z : simpl never.
Arguments Z.add : simpl never.
Arguments Z.sub : simpl never.
Arguments Z.of_nat : simpl never.
Arguments Z.to_nat : simpl never.
Arguments dec_val : simpl never.
Arguments seq : simpl never.

(* ------------------------------------------------------------------ loops that append, over any index type *)
Lemma for_append_map : forall (A : Type) (xs : list A) (item f : A -> pyval) (body : pyval -> pyval -> res (ctl pyval)) (acc : list pyval),
  (forall x a, In x xs -> body (item x) (PList a) = Ok (Next (PList (a ++ [f x])%list))) ->
  py_for (map item xs) body (PList acc) = Ok (Next (PList (acc ++ map f xs)%list)).
Proof.
  intros A. induction xs as [|x t IH]; intros item f body acc H; simpl.
  - rewrite app_nil_r. reflexivity.
  - rewrite (H x acc (or_introl eq_refl)). simpl. rewrite (IH item f body (acc ++ [f x])%list).
    + rewrite <- app_assoc. reflexivity.
    + intros y a Hy. apply H. right. exact Hy.
Qed.

(* ------------------------------------------------------------------ data facts (register numbers 0..31) *)
Definition name_fact (n : nat) : bool := all_digits (nat_str n) && Z.eqb (dec_val (nat_str n)) (Z.of_nat n).
Lemma name_facts : forall n, Nat.ltb n 32 = true -> name_fact n = true.
Proof. apply below32. vm_compute. reflexivity. Qed.
Lemma int_name : forall n, Nat.ltb n 32 = true -> int_of_string false (nat_str n) = Ok (Z.of_nat n).
Proof.
  intros n H. pose proof (name_facts n H) as F. unfold name_fact in F. apply andb_true_iff in F. destruct F as [A B].
  rewrite (int_dec10 _ A). apply Z.eqb_eq in B. rewrite B. reflexivity.
Qed.
Lemma lower_prefix : forall r, py_lower (gr_prefix r) = String (low (w_pre r)) "".
Proof. intros r. unfold gr_prefix, s1. destruct (is_scalar r); rewrite py_lower_cons, py_lower_nil; [|rewrite low_idem]; reflexivity. Qed.
Ltac lows := unfold s1; rewrite ?lower_prefix, ?py_lower_cons, ?py_lower_nil, ?low_idem.
Ltac zhead := match goal with |- (let x := ?F in @?B x) = ?R => change ((B F) = R); cbv beta end.
Ltac run facts := repeat progress (cbn beta iota delta; rewrite ?list_index_0, ?list_index_1; facts; try zhead);
                  repeat progress (cbn; facts; lows).

(* ------------------------------------------------------------------ the left-over fields of the group carry register keys only *)
Definition regkey (k : string) : bool := existsb (String.eqb k) ["prefix"; "name"; "lanes"; "shape"].
Lemma assoc_dset_other : forall k k' v d, String.eqb k' k = false -> assoc k (dset k' v d) = assoc k d.
Proof.
  intros k k' v. induction d as [|[k0 x] t IH]; intros H; cbn [dset assoc].
  - rewrite key_eqb_eq, String.eqb_sym, H. reflexivity.
  - destruct (String.eqb k' k0) eqn:E; cbn [assoc].
    + apply String.eqb_eq in E. subst k0. rewrite key_eqb_eq, String.eqb_sym, H. reflexivity.
    + rewrite (IH H). reflexivity.
Qed.
Lemma assoc_upd : forall k kvs d, forallb (fun kv => negb (String.eqb (fst kv) k)) kvs = true -> assoc k (upd d kvs) = assoc k d.
Proof.
  intros k. unfold upd. induction kvs as [|[k' v] t IH]; intros d H; cbn [fold_left]; [reflexivity|].
  cbn [forallb fst] in H. apply andb_true_iff in H. destruct H as [A B]. apply negb_true_iff in A.
  rewrite (IH _ B). cbn [fst snd]. apply assoc_dset_other. exact A.
Qed.
Lemma wreg_keys : forall k e, regkey k = false -> forallb (fun kv => negb (String.eqb (fst kv) k)) (gr_wreg e) = true.
Proof.
  intros k [c n arr] H. unfold regkey in H. cbn [existsb] in H. rewrite !orb_false_iff in H. destruct H as (A & B & C & D & _).
  unfold gr_wreg, gr_arr. cbn [w_arr]. destruct arr as [[l s]|]; [destruct (nonempty l)|]; cbn [app forallb fst];
    rewrite ?(String.eqb_sym _ k), ?A, ?B, ?C, ?D; reflexivity.
Qed.
Lemma assoc_left_from : forall k els d, regkey k = false -> assoc k (fold_left (fun d e => upd d (gr_wreg e)) els d) = assoc k d.
Proof.
  intros k. induction els as [|e t IH]; intros d H; cbn [fold_left]; [reflexivity|].
  rewrite (IH _ H). apply assoc_upd. apply wreg_keys. exact H.
Qed.
Lemma assoc_left : forall k els, regkey k = false -> assoc k (gr_left els) = None.
Proof. intros k els H. unfold gr_left. rewrite (assoc_left_from k els [] H). reflexivity. Qed.

(* ------------------------------------------------------------------ what the members become *)
(* after the copy loop: the member's dictionary with the integer index *)
Definition with_index (d : list (string * pyval)) (i : option string) : pyval :=
  PDict (d ++ match i with Some x => [("index", PInt (dec_val x))] | None => [] end)%list.
Definition member_oracle (orc : string -> pyval -> res pyval) (els : list wreg) : Prop :=
  forall e, In e els -> orc "list_element" (PStr (gr_elem_word e)) = Ok (PDict (gr_wreg e)).

Definition emb_member (i : option string) (r : reg) : pyval := emb_operand (OReg (set_index (den_idx i) r)).

Lemma int_idx : forall i, idx_okb i = true -> match i with Some d => int_of_string true d = Ok (dec_val d) | None => True end.
Proof. intros [d|] H; [|exact I]. apply int_dec0. exact H. Qed.

(* copy loop body on a list member *)
Ltac member x := destruct x as [c n arr]; destruct arr as [[[|lc lt] s]|]; unfold gr_wreg, gr_arr, with_index; cbn.

Ltac fin := unfold emb_member, emb_operand, emb_reg, set_index, den_idx, den_wreg; cbn; lows; reflexivity.

Lemma post_list : forall orc els i, wop_okb fx_all (WList els i) = true -> member_oracle orc els ->
  g_process_operand orc (gr_wop (WList els i)) = Ok (emb_wop (WList els i)).
Proof.
  intros orc els i H M. cbn [wop_okb] in H. rewrite !andb_true_iff in H. destruct H as (_ & HE & HI).
  assert (L1 : assoc "range" (gr_left els) = None) by (apply assoc_left; reflexivity).
  assert (L2 : assoc "index" (gr_left els) = None) by (apply assoc_left; reflexivity).
  pose proof (int_idx i HI) as HI'.
  unfold gr_wop, emb_wop, den_wop. rewrite map_map. change (fun x => emb_operand (OReg (set_index (den_idx i) (den_wreg x)))) with (fun x => emb_member i (den_wreg x)).
  destruct i as [d|]; cbn [gr_idx app].
  all: run ltac:(rewrite ?L1, ?L2).
  all: rewrite (for_append_map wreg els (fun e => PStr (gr_elem_word e)) (fun e => PDict (gr_wreg e))) by (intros x a Hx; cbn; rewrite (M x Hx); reflexivity).
  all: run ltac:(rewrite ?L1, ?L2).
  - rewrite (for_append_map wreg els (fun e => PDict (gr_wreg e)) (fun e => with_index (gr_wreg e) (Some d)))
      by (intros x a Hx; member x; rewrite HI'; reflexivity).
    cbn.
    rewrite (for_append_map wreg els (fun e => with_index (gr_wreg e) (Some d)) (fun e => emb_member (Some d) (den_wreg e)))
      by (intros x a Hx; member x; lows; cbn; lows; fin).
    reflexivity.
  - rewrite (for_append_map wreg els (fun e => PDict (gr_wreg e)) (fun e => with_index (gr_wreg e) None))
      by (intros x a Hx; member x; reflexivity).
    cbn.
    rewrite (for_append_map wreg els (fun e => with_index (gr_wreg e) None) (fun e => emb_member None (den_wreg e)))
      by (intros x a Hx; member x; lows; cbn; lows; fin).
    reflexivity.
Qed.

(* ------------------------------------------------------------------ ranges *)
Lemma elem_lt : forall r, elem_okb r = true -> Nat.ltb (w_num r) 32 = true.
Proof. intros r H. unfold elem_okb, wreg_okb in H. rewrite !andb_true_iff in H. tauto. Qed.

(* the member dictionary of the copy loop of a range: the first register's fields, the number replaced *)
Definition range_dict (a : wreg) (i : option string) (z : Z) : pyval :=
  with_index ([("prefix", PStr (gr_prefix a)); ("name", PStr (string_of_Z z))] ++ gr_arr a)%list i.
Definition range_reg (a : wreg) (z : Z) : reg :=
  mkreg (r_prefix (den_wreg a)) (string_of_Z z) (r_shape (den_wreg a)) (r_lanes (den_wreg a)) None None.

Lemma post_range : forall orc a b i, wop_okb fx_all (WRange a b i) = true -> member_oracle orc [a; b] ->
  g_process_operand orc (gr_wop (WRange a b i)) = Ok (emb_wop (WRange a b i)).
Proof.
  intros orc a b i H M. cbn [wop_okb] in H. rewrite !andb_true_iff in H. destruct H as (HA & HB & HI).
  assert (L0 : assoc "list" (gr_left [a; b]) = None) by (apply assoc_left; reflexivity).
  assert (L1 : assoc "range" (gr_left [a; b]) = None) by (apply assoc_left; reflexivity).
  assert (L2 : assoc "index" (gr_left [a; b]) = None) by (apply assoc_left; reflexivity).
  pose proof (int_idx i HI) as HI'.
  pose proof (int_name _ (elem_lt a HA)) as NA. pose proof (int_name _ (elem_lt b HB)) as NB.
  pose proof (M a (or_introl eq_refl)) as MA. pose proof (M b (or_intror (or_introl eq_refl))) as MB.
  unfold gr_wop, emb_wop, den_wop, range_members. rewrite !map_map.
  change (fun x => emb_operand (OReg (set_index (den_idx i) (mkreg (r_prefix (den_wreg a)) (string_of_Z (Z.of_nat (w_num a) + Z.of_nat x)) (r_shape (den_wreg a)) (r_lanes (den_wreg a)) None None))))
    with (fun x => emb_member i (range_reg a (Z.of_nat (w_num a) + Z.of_nat x))).
  assert (GA : assoc "name" (gr_wreg a) = Some (PStr (nat_str (w_num a)))) by reflexivity.
  assert (GB : assoc "name" (gr_wreg b) = Some (PStr (nat_str (w_num b)))) by reflexivity.
  destruct i as [d|]; cbn [gr_idx app].
  all: run ltac:(rewrite ?L0, ?L1, ?L2, ?MA, ?MB, ?GA, ?GB, ?NA, ?NB; change (Z.to_nat 0) with 0%nat; change (Z.to_nat 1) with 1%nat).
  - rewrite (for_append_map nat _ (fun k => PInt (Z.of_nat (w_num a) + Z.of_nat k)%Z) (fun k => range_dict a (Some d) (Z.of_nat (w_num a) + Z.of_nat k)%Z))
      by (intros x acc Hx; unfold range_dict; member a; rewrite HI'; reflexivity).
    cbn.
    rewrite (for_append_map nat _ (fun k => range_dict a (Some d) (Z.of_nat (w_num a) + Z.of_nat k)%Z) (fun k => emb_member (Some d) (range_reg a (Z.of_nat (w_num a) + Z.of_nat k)%Z)))
      by (intros x acc Hx; unfold range_dict, range_reg; member a; lows; cbn; lows; fin).
    reflexivity.
  - rewrite (for_append_map nat _ (fun k => PInt (Z.of_nat (w_num a) + Z.of_nat k)%Z) (fun k => range_dict a None (Z.of_nat (w_num a) + Z.of_nat k)%Z))
      by (intros x acc Hx; unfold range_dict; member a; reflexivity).
    cbn.
    rewrite (for_append_map nat _ (fun k => range_dict a None (Z.of_nat (w_num a) + Z.of_nat k)%Z) (fun k => emb_member None (range_reg a (Z.of_nat (w_num a) + Z.of_nat k)%Z)))
      by (intros x acc Hx; unfold range_dict, range_reg; member a; lows; cbn; lows; fin).
    reflexivity.
Qed.

(* ------------------------------------------------------------------ property-level statement *)
Definition islist (o : wop) : bool := match o with WList _ _ | WRange _ _ _ => true | _ => false end.

Theorem C10post_list : forall orc o, wop_okb fx_all o = true -> islist o = true -> member_oracle orc (op_members o) ->
  g_process_operand orc (gr_wop o) = Ok (emb_wop o).
Proof.
  intros orc o H L M. destruct o as [r|els i|a b i|h n|h f|h w|w|b t c]; try discriminate.
  - apply post_list; assumption.
  - apply post_range; assumption.
Qed.
Print Assumptions C10post_list.

(* reading the right-hand side: the objects of a range are the registers numbered first .. last with the fields of the FIRST
   member and the integer index; of a list, the members with the integer index *)
Corollary C10post_range_expansion : forall orc a b i, wop_okb fx_all (WRange a b i) = true -> member_oracle orc [a; b] ->
  g_process_operand orc (gr_wop (WRange a b i)) =
  Ok (PList (map (fun k => emb_reg (set_index (den_idx i) (range_reg a (Z.of_nat (w_num a) + Z.of_nat k))))
                 (seq 0 (Z.to_nat (Z.of_nat (w_num b) + 1 - Z.of_nat (w_num a)))))).
Proof.
  intros orc a b i H M. rewrite (C10post_list orc (WRange a b i) H eq_refl M).
  unfold emb_wop, den_wop, range_members. rewrite !map_map. reflexivity.
Qed.

(* the oracle of a line (Model/PostA64.v gr_stage) on concrete members; a range crossing 9 -> 10 and the index 0 *)
Example C10post_list_nonvacuous :
  let a := mkwreg "v" 9 (Some ("4", "s"%char)) in let b := mkwreg "V" 11 (Some ("4", "S"%char)) in
  let o := WRange a b (Some "0") in
  let orc := gr_stage (WLInstr "ld1" [o] None) (mkdirx PNone [] None) in
  wop_okb fx_all o = true /\ member_oracle orc (op_members o) /\
  (exists x y z, g_process_operand orc (gr_wop o) = Ok (PList [x; y; z]) /\
     py_getattr y "_name" = Ok (PStr "10") /\ py_getattr z "_name" = Ok (PStr "11") /\ py_getattr x "_index" = Ok (PInt 0)
     /\ py_getattr z "_shape" = Ok (PStr "s") /\ py_getattr z "_prefix" = Ok (PStr "v")) /\
  g_process_operand orc (gr_wop (WRange b a None)) = Ok (PList []).
Proof.
  cbv zeta. split; [reflexivity|]. split.
  - intros e [<-|[<-|[]]]; vm_compute; reflexivity.
  - split; [|vm_compute; reflexivity]. eexists; eexists; eexists. vm_compute. repeat split.
Qed.
