(* Property C15 -- shipped ISA database isa/x86.yml: every entry loads with operand classes the loader
   knows; performance fields are absent or well-formed.  Finite domain = the entries regenerated into
   Gen/Data_isa_x86.v on every run.  Instantiation of the template in tools/gen_c15.py -- do not edit by hand. *)
From Coq Require Import String List Bool Arith QArith.
From OV Require Import Model.ModelData Gen.Data_isa_x86.
Import ListNotations.

Theorem all_wf_isa_x86 : forallb (isa_entry_wfb ports table) entries = true.
Proof. vm_compute. reflexivity. Qed.
Print Assumptions all_wf_isa_x86.

Example nonvacuous_isa_x86 : (0 < length entries)%nat.
Proof. vm_compute. apply Nat.leb_le. reflexivity. Qed.
