(* C20 -- lemmas about the functions TRANSLATED from the current source (Gen/Import.v):
   snapping of throughput and latency over exact rationals, operand-code decoding tables.
   Compiled by the check on every run (not by make). *)
From Coq Require Import String Ascii List Bool ZArith QArith Qround Qabs Lqa Lia.
From OV Require Import Model.PyString Model.ImportPre Gen.Import.
Import ListNotations.
Open Scope Q_scope.

Definition validate := @g_validate_measurement Q QNum.

Definition in_tp_window (n : positive) (m : Q) : Prop := (19 # (20 * n)) <= m /\ m <= (21 # (20 * n)).
Definition snap_tp (n : positive) : Q := qroundd 5 (1 # n).

Ltac expose_tp :=
  unfold validate, g_validate_measurement;
  replace (py_range 1 11) with [1;2;3;4;5;6;7;8;9;10]%Z by (vm_compute; reflexivity);
  cbn -[Qle_bool Qmult Qdiv Qplus Qminus inject_Z qroundd qround Qfloor Qceiling Qeq_bool].

(* turn boolean facts about Qle_bool into Qle / Qlt facts with normalised closed constants *)
Ltac norm_closed c k := let c' := eval vm_compute in c in k c'.
Ltac bool2prop :=
  repeat match goal with
  | H : andb _ _ = true |- _ => apply andb_true_iff in H; destruct H
  | H : andb _ _ = false |- _ => apply andb_false_iff in H; destruct H
  | H : orb _ _ = true |- _ => apply orb_true_iff in H; destruct H
  | H : orb _ _ = false |- _ => apply orb_false_iff in H; destruct H
  | H : Qle_bool _ _ = true |- _ => apply Qle_bool_iff in H
  | H : Qle_bool ?a ?b = false |- _ =>
      assert (~ a <= b) by (let X := fresh in intro X; apply Qle_bool_iff in X; rewrite X in H; discriminate H); clear H
  end.
Ltac norm_hyps :=
  repeat match goal with
  | H : context[Qmult ?a ?b] |- _ =>
      let c := constr:(Qmult a b) in
      let c' := eval vm_compute in c in
      match c' with Qmake _ _ => change c with c' in H end
  end.
Ltac split_ifs :=
  repeat match goal with
  | H : context[if ?c then _ else _] |- _ => destruct c eqn:?
  | |- context[if ?c then _ else _] => destruct c eqn:?
  end.

Ltac walk H tac :=
  match type of H with
  | (if ?c then _ else _) = _ => let E := fresh "E" in destruct c eqn:E; [ tac | walk H tac ]
  | _ => tac
  end.
Ltac norm_goal := repeat match goal with |- context[(?a # ?p)] => let p' := eval vm_compute in p in progress change p with p' end.
Ltac clear_false := repeat match goal with E : _ = false |- _ => clear E end.

Lemma tp_sound m v : validate m "tp" = Some v -> exists n : positive, (n <= 10)%positive /\ v = snap_tp n /\ in_tp_window n m.
Proof.
  expose_tp. intro H.
  walk H ltac:(try discriminate H; inversion H; subst; clear H; clear_false; bool2prop; norm_hyps).
  all: [> exists 1%positive | exists 2%positive | exists 3%positive | exists 4%positive | exists 5%positive
        | exists 6%positive | exists 7%positive | exists 8%positive | exists 9%positive | exists 10%positive ].
  all: (split; [ vm_compute; discriminate | split; [ reflexivity | split; norm_goal; lra ] ]).
Qed.

Lemma pos_le_10 (n : positive) : (n <= 10)%positive ->
  n = 1%positive \/ n = 2%positive \/ n = 3%positive \/ n = 4%positive \/ n = 5%positive \/
  n = 6%positive \/ n = 7%positive \/ n = 8%positive \/ n = 9%positive \/ n = 10%positive.
Proof. lia. Qed.

Lemma windows_disjoint n n' m : (n <= 10)%positive -> (n' <= 10)%positive ->
  in_tp_window n m -> in_tp_window n' m -> n = n'.
Proof.
  intros Hn Hn' [A B] [C D].
  apply pos_le_10 in Hn; apply pos_le_10 in Hn'.
  repeat (destruct Hn as [Hn | Hn]); subst n; repeat (destruct Hn' as [Hn' | Hn']); subst n';
    try reflexivity; exfalso; revert A B C D; norm_goal; intros; lra.
Qed.

Ltac solve_if :=
  match goal with
  | |- (if ?c then _ else _) = _ =>
      let E := fresh "E" in destruct c eqn:E;
      [ first [ reflexivity | exfalso; clear_false; bool2prop; norm_hyps; lra ]
      | first [ solve [exfalso; bool2prop; norm_hyps; lra] | clear E ] ]
  end.

Lemma tp_complete n m : (n <= 10)%positive -> in_tp_window n m -> validate m "tp" = Some (snap_tp n).
Proof.
  intros Hn [A B]. expose_tp.
  apply pos_le_10 in Hn.
  repeat (destruct Hn as [Hn | Hn]); subst n; revert A B; norm_goal; intros A B;
    repeat solve_if.
Qed.

Lemma tp_reject m : (forall n : positive, (n <= 10)%positive -> ~ in_tp_window n m) -> validate m "tp" = None.
Proof.
  intro H. destruct (validate m "tp") eqn:E; [|reflexivity].
  apply tp_sound in E. destruct E as (n & L & _ & W). exfalso. eapply H; eauto.
Qed.

(* the window is "within 5 % of 1/n":  19/(20 n) = 0.95 * (1/n),  21/(20 n) = 1.05 * (1/n) *)
Lemma tp_window_meaning (n : positive) :
  (19 # (20 * n)) == (95 # 100) * (1 # n) /\ (21 # (20 * n)) == (105 # 100) * (1 # n).
Proof. unfold Qeq; simpl; split; lia. Qed.

(* the ten values a throughput can be snapped to, and their distance from the reciprocal *)
Lemma snap_tp_values :
  map snap_tp [1;2;3;4;5;6;7;8;9;10]%positive =
  [100000 # 100000; 50000 # 100000; 33333 # 100000; 25000 # 100000; 20000 # 100000;
   16667 # 100000; 14286 # 100000; 12500 # 100000; 11111 # 100000; 10000 # 100000]%Q.
Proof. vm_compute. reflexivity. Qed.
Lemma snap_tp_close (n : positive) : (n <= 10)%positive ->
  Qabs (snap_tp n - (1 # n)) <= 1 # 200000.
Proof.
  intro H. apply pos_le_10 in H.
  repeat (destruct H as [H | H]); subst n; vm_compute; intro X; discriminate X.
Qed.

(* any other mode: missing *)
Lemma other_mode m mode : mode <> "lt"%string -> mode <> "tp"%string -> validate m mode = None.
Proof.
  intros A B. unfold validate, g_validate_measurement.
  destruct (String.eqb mode "lt") eqn:E1; [apply String.eqb_eq in E1; contradiction|].
  destruct (String.eqb mode "tp") eqn:E2; [apply String.eqb_eq in E2; contradiction|]. reflexivity.
Qed.

(* ---------------------------------------------------------------- latency *)
Ltac expose_lt :=
  unfold validate, g_validate_measurement;
  cbn -[Qle_bool Qmult Qdiv Qplus Qminus inject_Z qroundd qround Qfloor Qceiling Qeq_bool].

Definition within5 (m v : Q) : Prop := v - (1 # 20) * v <= m /\ m <= v + (1 # 20) * v.

Lemma floor_ceil (m : Q) : let f := Qfloor m in let c := Qceiling m in
  inject_Z f <= m /\ m < inject_Z f + 1 /\ m <= inject_Z c /\
  ((c = f /\ m == inject_Z f) \/ (c = (f + 1)%Z /\ inject_Z f < m)).
Proof.
  intros f c.
  pose proof (Qfloor_le m) as A. pose proof (Qlt_floor m) as B.
  pose proof (Qle_ceiling m) as C. pose proof (Qceiling_lt m) as D.
  fold f in A, B. fold c in C, D.
  rewrite inject_Z_plus in B. change (inject_Z 1) with 1 in B.
  assert (E : inject_Z (c - 1) = inject_Z c - 1).
  { unfold Z.sub. rewrite inject_Z_plus. reflexivity. }
  rewrite E in D.
  repeat split; try assumption.
  assert (f <= c)%Z by (rewrite Zle_Qle; lra).
  assert (c < f + 2)%Z.
  { rewrite Zlt_Qlt. rewrite inject_Z_plus. change (inject_Z 2) with 2. lra. }
  assert (c = f \/ c = (f + 1)%Z) as [X | X] by lia.
  - left. split; auto. subst c. rewrite X in *. lra.
  - right. split; auto. rewrite X in D. rewrite inject_Z_plus in D. change (inject_Z 1) with 1 in D. lra.
Qed.

Lemma qround_cases (m : Q) :
  (m - inject_Z (Qfloor m) < 1#2 /\ qround m = Qfloor m) \/
  (m - inject_Z (Qfloor m) == 1#2 /\ qround m = (if Z.even (Qfloor m) then Qfloor m else Qfloor m + 1)%Z) \/
  (1#2 < m - inject_Z (Qfloor m) /\ qround m = (Qfloor m + 1)%Z).
Proof.
  unfold qround. cbv zeta.
  destruct (Qcompare (m - inject_Z (Qfloor m)) (1#2)) eqn:E.
  - right; left. split; auto; apply Qeq_alt; auto.
  - left. split; auto; apply Qlt_alt; auto.
  - right; right. split; auto; apply Qgt_alt in E; auto.
Qed.

Lemma lt_sound m v : validate m "lt" = Some v -> v = inject_Z (qround m) /\ 0 <= m /\ within5 m v.
Proof.
  expose_lt. intro H.
  destruct (_ || _)%bool eqn:E in H; [ | discriminate H ].
  inversion H; subst v; clear H. split; [reflexivity|].
  cbn [Z.to_pos] in E.
  destruct (floor_ceil m) as (A & B & C & D). bool2prop.
  all: destruct D as [[D1 D2] | [D1 D2]]; rewrite D1 in *; clear D1.
  all: destruct (qround_cases m) as [[K1 K2] | [[K1 K2] | [K1 K2]]]; rewrite K2; clear K2; unfold within5.
  all: try (destruct (Z.even (Qfloor m)) eqn:EV).
  all: repeat rewrite inject_Z_plus in *; change (inject_Z 1) with 1 in *.
  all: try lra.
  all: assert (G1 : (9 <= Qfloor m)%Z) by (rewrite Zle_Qle; change (inject_Z 9) with 9; lra).
  all: assert (G2 : Qfloor m <> 9%Z) by (intro X; rewrite X in *; first [discriminate EV | change (inject_Z 9) with 9 in *; lra]).
  all: assert (G3 : (10 <= Qfloor m)%Z) by lia; rewrite Zle_Qle in G3; change (inject_Z 10) with 10 in G3; lra.
Qed.

Lemma lt_complete m (j : Z) : within5 m (inject_Z j) -> validate m "lt" = Some (inject_Z (qround m)).
Proof.
  intros [W1 W2]. expose_lt. cbn [Z.to_pos].
  destruct (floor_ceil m) as (A & B & C & D).
  destruct (_ || _)%bool eqn:E; [reflexivity|]. exfalso. bool2prop.
  assert (J0 : 0 <= inject_Z j) by lra.
  destruct (Qlt_le_dec m (inject_Z j)) as [L | L].
  - (* j above m: j >= ceil *)
    assert (JC : (Qceiling m <= j)%Z).
    { destruct D as [[D1 D2] | [D1 D2]]; rewrite D1.
      - rewrite Zle_Qle. lra.
      - assert (Qfloor m < j)%Z by (rewrite Zlt_Qlt; lra). lia. }
    rewrite Zle_Qle in JC. lra.
  - assert (JF : (j <= Qfloor m)%Z).
    { assert (j < Qfloor m + 1)%Z by (rewrite Zlt_Qlt, inject_Z_plus; change (inject_Z 1) with 1; lra). lia. }
    rewrite Zle_Qle in JF. lra.
Qed.

Lemma lt_reject m : (forall j : Z, ~ within5 m (inject_Z j)) -> validate m "lt" = None.
Proof.
  intro H. destruct (validate m "lt") eqn:E; [|reflexivity].
  apply lt_sound in E. destruct E as (-> & _ & W). exfalso. eapply H; eauto.
Qed.

(* ---------------------------------------------------------------- operand codes (README "Benchmark import") *)
Open Scope string_scope.
(* every ordered selection without repetition of the flag letters ("Add b if ..., o if ...") *)
Fixpoint arrangements (fuel : nat) (l : list ascii) : list (list ascii) :=
  match fuel with
  | O => [[]]
  | S k => [] :: flat_map (fun c => map (cons c) (arrangements k (remove ascii_dec c l))) l
  end.
Definition has (c : ascii) (flags : list ascii) : bool := existsb (Ascii.eqb c) flags.
Definition opt_str (b : bool) (s : string) : pyval := if b then PStr s else PNone.

(* x86: r | x y z | i | m[b][o][i][s] *)
Definition doc_mem_x86 (fl : list ascii) : string * pydict :=
  (String "m" (of_chars fl),
   [("class", PStr "memory"); ("base", opt_str (has "b" fl) "gpr"); ("offset", opt_str (has "o" fl) "imd");
    ("index", opt_str (has "i" fl) "gpr"); ("scale", PInt (if has "s" fl then 8 else 1)%Z)]).
Definition doc_x86 : list (string * pydict) :=
  [("r", [("class", PStr "register"); ("name", PStr "gpr")]);
   ("x", [("class", PStr "register"); ("name", PStr "xmm")]);
   ("y", [("class", PStr "register"); ("name", PStr "ymm")]);
   ("z", [("class", PStr "register"); ("name", PStr "zmm")]);
   ("i", [("class", PStr "immediate"); ("imd", PStr "int")])]
  ++ map doc_mem_x86 (arrangements 4 ["b"; "o"; "i"; "s"]%char).

(* AArch64: w x b h s d q | v[b h s d] | i | m[b][o][i][s][r][p] *)
Definition doc_mem_a64 (fl : list ascii) : string * pydict :=
  (String "m" (of_chars fl),
   [("class", PStr "memory"); ("base", opt_str (has "b" fl) "x"); ("offset", opt_str (has "o" fl) "imd");
    ("index", opt_str (has "i" fl) "gpr"); ("scale", PInt (if has "s" fl then 8 else 1)%Z);
    ("pre_indexed", PBool (has "r" fl)); ("post_indexed", PBool (has "p" fl))]).
Definition doc_a64 : list (string * pydict) :=
  map (fun p => (p, [("class", PStr "register"); ("prefix", PStr p)])) ["w"; "x"; "b"; "h"; "s"; "d"; "q"]
  ++ [("v", [("class", PStr "register"); ("prefix", PStr "v"); ("shape", PStr "d")])]
  ++ map (fun l => ("v" ++ l, [("class", PStr "register"); ("prefix", PStr "v"); ("shape", PStr l)])) ["b"; "h"; "s"; "d"]
  ++ [("i", [("class", PStr "immediate"); ("imd", PStr "int")])]
  ++ map doc_mem_a64 (arrangements 6 ["b"; "o"; "i"; "s"; "r"; "p"]%char).

Definition table_ok (dec : string -> option pydict) (tab : list (string * pydict)) : bool :=
  forallb (fun p => match dec (fst p) with Some d => pydict_eqb d (snd p) | None => false end) tab.

Lemma pyval_eqb_true a b : pyval_eqb a b = true -> a = b.
Proof.
  destruct a, b; simpl; intro H; try discriminate; try reflexivity.
  - apply String.eqb_eq in H; congruence.
  - apply Z.eqb_eq in H; congruence.
  - apply Bool.eqb_prop in H; congruence.
Qed.
Lemma pydict_eqb_true a : forall b, pydict_eqb a b = true -> a = b.
Proof.
  induction a as [|[k v] r IH]; destruct b as [|[k' v'] r']; simpl; intro H; try discriminate; auto.
  apply andb_true_iff in H. destruct H as [H1 H]. apply andb_true_iff in H. destruct H as [H2 H3].
  apply String.eqb_eq in H1. apply pyval_eqb_true in H2. apply IH in H3. congruence.
Qed.
Lemma table_ok_spec dec tab : table_ok dec tab = true -> forall c p, In (c, p) tab -> dec c = Some p.
Proof.
  unfold table_ok. rewrite forallb_forall. intros H c p I. specialize (H _ I). simpl in H.
  destruct (dec c); [|discriminate]. apply pydict_eqb_true in H. congruence.
Qed.

Lemma decode_x86_ok : table_ok (@g_create_db_operand_x86) doc_x86 = true.
Proof. vm_compute. reflexivity. Qed.
Lemma decode_a64_ok : table_ok (@g_create_db_operand_aarch64) doc_a64 = true.
Proof. vm_compute. reflexivity. Qed.
