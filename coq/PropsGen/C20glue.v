(* C20 -- translator tie (T) for the benchmark-import GLUE: the definitions regenerated on every run by
   tools/gen_c20b.py (<scratch>/ImportGlue.v, logical root OVC; the snapping function and the operand decoders come
   from tools/gen_c20.py as OVC.ImportFns) are proved EQUAL to the hand model Model/Import.v (variant `repaired`)
   on every input, and the C20 statements are restated for them.  Compiled by harness/c20_tie.py in the run's
   scratch directory (coqc -Q coq OV -Q <scratch> OVC); static lemmas: Proofs/ImportGlue.v.  notes/C20-glue.md *)
From Coq Require Import String Ascii List Bool Arith ZArith Lia.
From OV Require Import Model.PyString Model.ImportPre Model.Import Proofs.Import Model.ImportGlue Proofs.ImportGlue.
From OVC Require Import ImportFns ImportGlue.
Import ListNotations.
Open Scope string_scope.

Section Parse.
Variable T : Type.
Variable N : NumOps T.
Variable pf : string -> option T.
Variable isa : string.

Definition vald := g_validate_measurement T N.
Definition dec (c : string) : option pydict := g_create_db_operand c isa.

Lemma decode_ops_gen field :
  g_mapM (fun op => g_of_opt (g_create_db_operand op isa) GValue) (split_chr "_" field)
  = gres_of (decode_ops dec field).
Proof.
  unfold decode_ops. rewrite <- g_mapM_map_res. apply g_mapM_ext. intro x. unfold dec.
  destruct (g_create_db_operand x isa); reflexivity.
Qed.

Lemma measurement_gen line :
  gbind (py_getitem (split_ws line) 1) (fun t => py_float pf t) = gres_of (measurement pf line).
Proof.
  rewrite py_getitem_1. unfold measurement. destruct (nth_error (split_ws line) 1); simpl; auto.
  unfold py_float. destruct (pf s); reflexivity.
Qed.

Lemma meas_bind {R} line (K : T -> gres R) :
  gbind (py_getitem (split_ws line) 1) (fun t => gbind (py_float pf t) K)
  = match measurement pf line with Ok m => K m | Err e => GErr (gerr_of e) end.
Proof.
  rewrite py_getitem_1. unfold measurement. destruct (nth_error (split_ws line) 1); simpl; auto.
  unfold py_float. destruct (pf s); reflexivity.
Qed.

Definition istate := (list (string * ref) * heap T)%type.
Definition body_sim (body : string -> istate -> gres (ctl istate)) : Prop :=
  forall line d h, hinv T h d ->
    match ibench_token dec pf repaired line with
    | None => body line (d, h) = GOk (CNext (d, h))
    | Some t => match ibench_step vald (hresolve h d) t with
                | Err e => body line (d, h) = GErr (gerr_of e)
                | Ok dm' => exists h' d', body line (d, h) = GOk (CNext (d', h')) /\ hinv T h' d' /\ hresolve h' d' = dm'
                end
    end.

Lemma ibench_loop body : body_sim body -> forall lines d h, hinv T h d ->
  gbind (py_for_ctl lines (d, h) body) (fun st : istate => let '(d, h) := st in GOk (hresolve h d))
  = gres_of (ibench_fold vald (ibench_tokens dec pf repaired lines) (hresolve h d)).
Proof.
  intros B lines. induction lines as [|l r IH]; intros d h I.
  - reflexivity.
  - simpl. specialize (B l d h I). destruct (ibench_token dec pf repaired l) as [t|].
    + rewrite ibench_fold_cons. destruct (ibench_step vald (hresolve h d) t) as [dm'|e].
      * destruct B as (h' & d' & -> & I' & <-). apply IH. exact I'.
      * rewrite B. reflexivity.
    + rewrite B. apply IH. exact I.
Qed.

Theorem ibench_gen_is_model : forall lines,
  g_get_ibench_output T N pf lines isa = gres_of (get_ibench_output vald dec pf repaired lines).
Proof.
  intro lines. unfold g_get_ibench_output, get_ibench_output.
  match goal with |- gbind (py_for_ctl _ _ ?b) _ = _ => assert (B : body_sim b) end.
  2: { exact (ibench_loop _ B lines [] [] (hinv_nil T)). }
  intros line d h I. cbn beta iota zeta.
  unfold ibench_token. rewrite strlen_zero.
  destruct (orb (py_substr "Using frequency" line) (Nat.eqb (String.length line) 0)); [reflexivity|].
  rewrite py_getitem_0, split_chr_hd. cbn [g_of_opt gbind].
  set (instruction := hd "" (split_chr ":" line)).
  unfold py_slice_to. change (Z.to_nat 2) with 2%nat.
  set (key := String.concat "-" (firstn 2 (split_chr "-" instruction))).
  unfold ibench_step. cbn [t_key t_new t_kind t_meas].
  rewrite assoc_hresolve. unfold py_dict_has, py_dict_get, line_kind. cbn [v_mode_by_suffix repaired].
  destruct (assoc key d) as [r|] eqn:A; cbn [option_map g_of_opt gbind bind].
  - (* the key exists: the cell is updated through the stored reference *)
    rewrite (assoc_set_present _ _ _ A).
    destruct (py_endswith instruction "-TP"); [|destruct (py_endswith instruction "-LT")].
    + rewrite meas_bind. destruct (measurement pf line) as [m|e]; cbn [bind]; [|reflexivity].
      eexists _, _. split; [reflexivity|]. split; [apply hinv_hset; exact I | apply hresolve_hset; auto].
    + rewrite meas_bind. destruct (measurement pf line) as [m|e]; cbn [bind]; [|reflexivity].
      eexists _, _. split; [reflexivity|]. split; [apply hinv_hset; exact I | apply hresolve_hset; auto].
    + cbn [bind]. eexists _, _. split; [reflexivity|]. split; [exact I|].
      symmetry. apply assoc_set_present. rewrite assoc_hresolve, A. reflexivity.
  - (* a new key: a cell is allocated, updated and stored under the key *)
    unfold new_entry. rewrite py_getitem_0, split_chr_hd, py_getitem_1. cbn [g_of_opt gbind].
    destruct (nth_error (split_chr "-" instruction) 1) as [opf|]; cbn [g_of_opt gbind bind]; [|reflexivity].
    rewrite decode_ops_gen. destruct (decode_ops dec opf) as [ops|e]; cbn [gres_of gbind bind]; [|reflexivity].
    unfold halloc. cbn beta iota zeta.
    set (e0 := mkform (hd "" (split_chr "-" instruction)) ops None None).
    pose proof (hinv_alloc T h d key e0 I A) as I1.
    pose proof (assoc_set_same' key (length h) d) as A1.
    destruct (py_endswith instruction "-TP"); [|destruct (py_endswith instruction "-LT")].
    + rewrite meas_bind. destruct (measurement pf line) as [m|e]; cbn [bind]; [|reflexivity].
      eexists _, _. split; [reflexivity|]. split; [apply hinv_hset; exact I1|].
      rewrite (hresolve_hset T _ _ key _ _ I1 A1), hresolve_alloc, assoc_set_twice, hget_app_new by exact I. reflexivity.
    + rewrite meas_bind. destruct (measurement pf line) as [m|e]; cbn [bind]; [|reflexivity].
      eexists _, _. split; [reflexivity|]. split; [apply hinv_hset; exact I1|].
      rewrite (hresolve_hset T _ _ key _ _ I1 A1), hresolve_alloc, assoc_set_twice, hget_app_new by exact I. reflexivity.
    + cbn [bind]. eexists _, _. split; [reflexivity|]. split; [exact I1|]. apply hresolve_alloc. exact I.
Qed.

(* ------------------------------------------------------------------ asmbench *)
Lemma py_getitem_skip {A} (l : list A) (n k : nat) (z : Z) : z = Z.of_nat k ->
  py_getitem l (Z.of_nat n + z)%Z = g_of_opt (nth_error (skipn n l) k) GIndex.
Proof. intros ->. apply py_getitem_off. Qed.
Lemma py_getitem_skip0 {A} (l : list A) (n : nat) :
  py_getitem l (Z.of_nat n) = g_of_opt (nth_error (skipn n l) 0) GIndex.
Proof. rewrite <- (py_getitem_off l n 0). f_equal. simpl. lia. Qed.

Definition abody_sim (input : list string) (body : Z -> istate -> gres (ctl istate)) : Prop :=
  forall j d h, hinv T h d ->
    match skipn (4 * j) input with
    | l0 :: l1 :: l2 :: l3 :: _ =>
        if negb (String.eqb (strip l3) "") then body (Z.of_nat (4 * j)) (d, h) = GOk (CBreak (d, h))
        else match asm_entry vald dec pf l0 l1 l2 with
             | Err e => body (Z.of_nat (4 * j)) (d, h) = GErr (gerr_of e)
             | Ok ke => exists h' d', body (Z.of_nat (4 * j)) (d, h) = GOk (CNext (d', h')) /\ hinv T h' d'
                                      /\ hresolve h' d' = assoc_set (fst ke) (snd ke) (hresolve h d)
             end
    | [] => True
    | _ => body (Z.of_nat (4 * j)) (d, h) = GOk (CBreak (d, h))
    end.

Lemma skipn_add {A} (l : list A) n m : skipn (n + m) l = skipn n (skipn m l).
Proof.
  revert l. induction m; intro l; simpl.
  - rewrite Nat.add_0_r. reflexivity.
  - rewrite Nat.add_succ_r. destruct l; simpl; [destruct n; reflexivity | apply IHm].
Qed.
Lemma skipn_skipn4 {A} (l : list A) j a b c e rest :
  skipn (4 * j) l = a :: b :: c :: e :: rest -> skipn (4 * S j) l = rest.
Proof.
  intro H. replace (4 * S j) with (4 + 4 * j) by lia. rewrite skipn_add. rewrite H. reflexivity.
Qed.

Lemma asm_loop input body : abody_sim input body -> forall cnt j d h, hinv T h d ->
  cnt = (length (skipn (4 * j) input) + 3) / 4 ->
  gbind (py_for_ctl (map (fun k => Z.of_nat (4 * k)) (seq j cnt)) (d, h) body)
        (fun st : istate => let '(d, h) := st in GOk (hresolve h d))
  = gres_of (asm_go vald dec pf repaired (skipn (4 * j) input) (hresolve h d)).
Proof.
  intros B cnt. induction cnt as [|c IH]; intros j d h I E.
  - destruct (skipn (4 * j) input) as [|a r] eqn:SK; [reflexivity|].
    exfalso. assert (X : 1 <= (length (a :: r) + 3) / 4) by (apply Nat.div_le_lower_bound; simpl; lia). lia.
  - specialize (B j d h I). cbn [seq map py_for_ctl].
    destruct (skipn (4 * j) input) as [|l0 [|l1 [|l2 [|l3 rest]]]] eqn:SK.
    + discriminate E.
    + rewrite B. reflexivity.
    + rewrite B. reflexivity.
    + rewrite B. reflexivity.
    + cbn [asm_go]. destruct (negb (String.eqb (strip l3) "")).
      * rewrite B. reflexivity.
      * destruct (asm_entry vald dec pf l0 l1 l2) as [[k e]|e].
        -- destruct B as (h' & d' & -> & I' & R'). cbn [bind fst snd] in *.
           rewrite <- R'. rewrite <- (skipn_skipn4 _ _ _ _ _ _ _ SK). apply IH; auto.
           rewrite (skipn_skipn4 _ _ _ _ _ _ _ SK). cbn [length] in E.
           replace (S (S (S (S (length rest)))) + 3) with (length rest + 3 + 1 * 4) in E by lia.
           rewrite Nat.div_add in E by lia. lia.
        -- rewrite B. reflexivity.
Qed.

Theorem asmbench_gen_is_model : forall lines,
  g_get_asmbench_output T N pf lines isa = gres_of (get_asmbench_output vald dec pf repaired lines).
Proof.
  intro lines. unfold g_get_asmbench_output, get_asmbench_output.
  unfold py_len. rewrite py_range3_0_4.
  match goal with |- gbind (py_for_ctl _ _ ?b) _ = _ => assert (B : abody_sim lines b) end.
  2: { exact (asm_loop lines _ B _ 0 [] [] (hinv_nil T) eq_refl). }
  intros j d h I. cbn beta iota zeta.
  pose proof (skipn_length (4 * j) lines) as L.
  rewrite (py_getitem_skip lines (4 * j) 3 3 eq_refl), (py_getitem_skip lines (4 * j) 2 2 eq_refl),
          (py_getitem_skip lines (4 * j) 1 1 eq_refl), py_getitem_skip0.
  destruct (skipn (4 * j) lines) as [|l0 [|l1 [|l2 [|l3 rest]]]]; cbn [length] in L; [exact Logic.I | | | |].
  1-3: replace (Z.of_nat (length lines) <=? Z.of_nat (4 * j) + 3)%Z with true by (symmetry; apply Z.leb_le; lia); reflexivity.
  replace (Z.of_nat (length lines) <=? Z.of_nat (4 * j) + 3)%Z with false by (symmetry; apply Z.leb_gt; lia).
  cbn [nth_error g_of_opt gbind].
  destruct (negb (String.eqb (strip l3) "")); [reflexivity|].
  unfold asm_entry, new_entry. rewrite py_getitem_0, split_chr_hd, py_getitem_1. cbn [g_of_opt gbind].
  destruct (nth_error (split_chr "-" (strip l0)) 1) as [opf|]; cbn [g_of_opt gbind bind]; [|reflexivity].
  rewrite decode_ops_gen. destruct (decode_ops dec opf) as [ops|e]; cbn [gres_of gbind bind]; [|reflexivity].
  rewrite meas_bind. destruct (measurement pf l2) as [tp|e]; cbn [bind]; [|reflexivity].
  rewrite meas_bind. destruct (measurement pf l1) as [lt|e]; cbn [bind]; [|reflexivity].
  unfold halloc. cbn beta iota zeta. cbn [fst snd f_mnemonic f_operands].
  eexists _, _. split; [reflexivity|]. split; [apply hinv_rebind; exact I | apply hresolve_alloc; exact I].
Qed.
End Parse.

(* ================================================================== MachineModel side *)
Section MM.
Variable T : Type.
Variable N : NumOps T.
Variable pf : string -> option T.
Variable self_isa : string.
Variable shipped : nat -> list oper.
Hypothesis Hisa : py_lower self_isa = "x86" \/ py_lower self_isa = "aarch64".
Hypothesis Hship : forall n, length (shipped n) = n /\ Forall (fun o => oper_is_dict o = false) (shipped n).

Definition x86 : bool := String.eqb (py_lower self_isa) "x86".
Notation chk := (g_check_operands T self_isa).
Notation mtch := (g_match_operands T self_isa).

(* operand dicts the import handles: no "*" key, and == is decided by the ordered comparison *)
Definition ok_dict (d : pydict) : Prop :=
  pd_has_key "*" d = false /\ forall d', pd_has_key "*" d' = false -> py_dict_eq d' d = pydict_eqb d' d.
Definition ok_ops (l : list pydict) : Prop := Forall (fun d => pd_has_key "*" d = false) l.
Definition eq_ok (a b : list pydict) : Prop :=
  Forall (fun x => Forall (fun y => py_dict_eq x y = pydict_eqb x y) b) a.

Lemma chk_obj m o d : oper_is_dict o = false -> pd_has_key "*" d = false -> chk m o d = false.
Proof.
  intros O W. destruct o as [d'|k a]; [discriminate|].
  unfold g_check_operands, g_check_x86_operands, g_check_AArch64_operands. rewrite W.
  destruct Hisa as [E | E]; rewrite E; cbn.
  - reflexivity.
  - repeat match goal with |- context [if ?c then _ else _] => destruct c end; reflexivity.
Qed.
Lemma chk_dict m d' d : pd_has_key "*" d = false ->
  chk m (ODict d') d = if x86 then py_dict_eq d' d else false.
Proof.
  intros W. unfold g_check_operands, g_check_x86_operands, g_check_AArch64_operands, x86. rewrite W.
  destruct Hisa as [E | E]; rewrite E; cbn; reflexivity.
Qed.

(* the loop of _match_operands *)
Lemma enumerate_cons {A} (x : A) l :
  py_enumerate (x :: l) = (0%Z, x) :: map (fun p => ((fst p + 1)%Z, snd p)) (py_enumerate l).
Proof.
  unfold py_enumerate. simpl. f_equal. rewrite <- seq_shift, map_map.
  generalize (seq 0 (length l)). intro s. revert l. induction s; intros [|y l]; simpl; auto.
  f_equal; [f_equal; lia | apply IHs].
Qed.

Definition all2 (f : oper -> pydict -> bool) : list oper -> list pydict -> bool :=
  fix go a b := match a, b with
                | x :: r, y :: s => andb (f x y) (go r s)
                | _, _ => true
                end.

Lemma match_loop m (i_ops : list oper) : forall (ops : list pydict) (off : nat) (pre : list oper) acc,
  length pre = off -> length i_ops = length ops ->
  py_for_ctl (map (fun p => ((fst p + Z.of_nat off)%Z, snd p)) (py_enumerate ops)) acc
     (fun '(idx, operand) (st_ : bool) =>
        gbind (py_getitem (pre ++ i_ops)%list idx) (fun t2_ => GOk (CNext (andb st_ (chk m t2_ operand)))))
  = GOk (andb acc (all2 (chk m) i_ops ops)).
Proof.
  induction i_ops as [|x r IH]; intros [|y s] off pre acc L E; simpl in E; try discriminate.
  - simpl. rewrite andb_true_r. reflexivity.
  - rewrite enumerate_cons. cbn [map fst snd py_for_ctl].
    replace (0 + Z.of_nat off)%Z with (Z.of_nat off) by lia.
    rewrite py_getitem_nat. rewrite nth_error_app2 by lia. rewrite L, Nat.sub_diag. cbn [nth_error g_of_opt gbind].
    rewrite map_map. cbn [fst snd].
    replace (map (fun x0 : Z * pydict => ((fst x0 + 1 + Z.of_nat off)%Z, snd x0)) (py_enumerate s))
      with (map (fun p : Z * pydict => ((fst p + Z.of_nat (S off))%Z, snd p)) (py_enumerate s))
      by (apply map_ext; intros [a b]; simpl; f_equal; lia).
    replace (pre ++ x :: r)%list with ((pre ++ [x]) ++ r)%list by (rewrite <- app_assoc; reflexivity).
    rewrite (IH s (S off) (pre ++ [x])%list); [| rewrite app_length; simpl; lia | lia].
    cbn [all2]. rewrite andb_assoc. reflexivity.
Qed.

Lemma match_spec m i_ops ops :
  mtch m i_ops ops = GOk (andb (Nat.eqb (length ops) (length i_ops)) (all2 (chk m) i_ops ops)).
Proof.
  unfold g_match_operands. cbn beta zeta. unfold py_len.
  destruct (Nat.eqb (length ops) (length i_ops)) eqn:E.
  - apply Nat.eqb_eq in E. rewrite E, Z.eqb_refl. cbn [negb].
    pose proof (match_loop m i_ops ops 0 [] true eq_refl (eq_sym E)) as L. cbn [app] in L.
    replace (map (fun p : Z * pydict => ((fst p + Z.of_nat 0)%Z, snd p)) (py_enumerate ops)) with (py_enumerate ops) in L
      by (rewrite <- (map_id (py_enumerate ops)) at 1; apply map_ext; intros [a b]; simpl; f_equal; lia).
    rewrite L. cbn [gbind andb]. destruct (all2 (chk m) i_ops ops); reflexivity.
  - apply Nat.eqb_neq in E. replace (Z.of_nat (length ops) =? Z.of_nat (length i_ops))%Z with false
      by (symmetry; apply Z.eqb_neq; lia). reflexivity.
Qed.

(* ------------------------------------------------------------------ matching = Model/Import.v's `matches` *)
Lemma all2_shipped m n ops : ok_ops ops -> length ops = n ->
  all2 (chk m) (shipped n) ops = Nat.eqb n 0.
Proof.
  intros OK L. destruct (Hship n) as [LS FS]. revert FS LS. generalize (shipped n). intros l FS LS.
  destruct l as [|o r]; destruct ops as [|d s]; simpl in *; subst; try discriminate; auto.
  inversion FS; subst. inversion OK; subst. rewrite chk_obj; auto.
Qed.
Lemma all2_dicts_a64 m a ops : x86 = false -> ok_ops ops -> length ops = length a ->
  all2 (chk m) (map ODict a) ops = Nat.eqb (length a) 0.
Proof.
  intros X OK L. destruct a as [|o r]; destruct ops as [|d s]; simpl in *; try discriminate; auto.
  inversion OK; subst. rewrite chk_dict, X by auto. reflexivity.
Qed.
Lemma all2_dicts_x86 m a : forall ops, x86 = true -> ok_ops ops -> eq_ok a ops -> length ops = length a ->
  all2 (chk m) (map ODict a) ops = ops_eqb a ops.
Proof.
  induction a as [|o r IH]; intros [|d s] X OK EQ L; simpl in *; try discriminate; auto.
  inversion OK; subst. inversion EQ; subst. inversion H3; subst.
  rewrite chk_dict, X by auto. rewrite H5. f_equal. apply IH; auto.
  eapply Forall_impl; [|exact H4]. intros a0 F. inversion F; auto.
Qed.
Lemma ops_eqb_length a : forall b, ops_eqb a b = true -> length a = length b.
Proof.
  induction a; intros [|y s]; simpl; try discriminate; auto. intro H. apply andb_true_iff in H. f_equal. apply IHa. tauto.
Qed.

(* relation between the translated state and the hand model's state *)
Definition rel (g : gmm T) (m : mm T) : Prop :=
  g_heap g = m_forms m /\ g_dict g = m_dict m /\ g_forms g = map RForm (seq 0 (length (m_forms m))) /\
  (forall k l i, In (k, l) (m_dict m) -> In (RForm i) l -> i < length (m_forms m)).
(* what the theorem needs of the forms handled so far and of the new one *)
Definition forms_ok (forms : list (iform T)) (ops : list pydict) : Prop :=
  ok_ops ops /\ Forall (fun g => eq_ok (f_operands g) ops) forms.

Lemma matches_gen g m ops r : rel g m -> forms_ok (m_forms m) ops ->
  (forall i, r = RForm i -> i < length (m_forms m)) ->
  mtch g (ref_operands shipped g r) ops = GOk (matches repaired x86 (m_forms m) ops r).
Proof.
  intros (H1 & H2 & H3 & H4) (OK & EQ) V. rewrite match_spec. f_equal. unfold matches. cbn [v_exact_match repaired].
  destruct r as [n|i]; cbn [ref_operands].
  - rewrite andb_false_r. destruct (Hship n) as [LS _]. rewrite LS.
    destruct (Nat.eqb (length ops) n) eqn:E.
    + apply Nat.eqb_eq in E. rewrite all2_shipped by auto. subst n. cbn [andb]. destruct (length ops); reflexivity.
    + cbn [andb]. apply Nat.eqb_neq in E. destruct n; destruct (length ops); simpl; auto; congruence.
  - specialize (V i eq_refl). rewrite H1. unfold hget.
    destruct (nth_error (m_forms m) i) as [f|] eqn:NE; [|apply nth_error_None in NE; lia].
    rewrite (nth_error_nth _ _ _ NE). rewrite map_length.
    destruct (Nat.eqb (length ops) (length (f_operands f))) eqn:E.
    + apply Nat.eqb_eq in E. cbn [andb]. destruct x86 eqn:X.
      * apply all2_dicts_x86; auto. rewrite Forall_forall in EQ. apply EQ. eapply nth_error_In; eauto.
      * rewrite all2_dicts_a64 by auto. rewrite <- E. destruct (length ops); reflexivity.
    + cbn [andb]. apply Nat.eqb_neq in E. destruct x86.
      * destruct (ops_eqb (f_operands f) ops) eqn:O; auto. apply ops_eqb_length in O. congruence.
      * destruct (length (f_operands f)); destruct (length ops); simpl; auto; congruence.
Qed.

Lemma next_filter_find g m ops : rel g m -> forms_ok (m_forms m) ops -> forall cands,
  (forall i, In (RForm i) cands -> i < length (m_forms m)) ->
  py_catch_stop (py_next_filter (fun r => mtch g (ref_operands shipped g r) ops) cands)
  = GOk (find (matches repaired x86 (m_forms m) ops) cands).
Proof.
  intros R F. induction cands as [|r c IH]; intro V; [reflexivity|].
  cbn [py_next_filter find]. rewrite (matches_gen g m ops r R F) by (intros i ->; apply V; left; reflexivity).
  cbn [gbind]. destruct (matches repaired x86 (m_forms m) ops r); [reflexivity|].
  apply IH. intros i I. apply V. right. exact I.
Qed.

Lemma assoc_In' {A} k (d : list (string * A)) l : assoc k d = Some l -> In (k, l) d.
Proof.
  induction d as [|[k2 v2] r IH]; simpl; [discriminate|].
  destruct (String.eqb k k2) eqn:E; intro H.
  - apply String.eqb_eq in E. inversion H; subst. auto.
  - auto.
Qed.

Lemma get_instruction_gen g m name ops : rel g m -> forms_ok (m_forms m) ops ->
  g_get_instruction T self_isa shipped g name ops
  = GOk (find (matches repaired x86 (m_forms m) ops)
              (match assoc (py_upper name) (m_dict m) with Some l => l | None => [] end)).
Proof.
  intros R F. unfold g_get_instruction. cbn zeta. unfold py_dict_get_default.
  destruct R as (H1 & H2 & H3 & H4). rewrite H2.
  rewrite (next_filter_find g m ops (conj H1 (conj H2 (conj H3 H4))) F).
  - reflexivity.
  - intros i I. destruct (assoc (py_upper name) (m_dict m)) as [l|] eqn:A; [|destruct I].
    eapply H4; eauto. apply assoc_In'. exact A.
Qed.

(* ------------------------------------------------------------------ set_instruction *)
Lemma list_set_twice {A} i (a b : A) l : list_set i b (list_set i a l) = list_set i b l.
Proof. revert i. induction l; intros [|i]; simpl; auto. f_equal. apply IHl. Qed.
Lemma list_set_app_new {A} (l : list A) a b : list_set (length l) b (l ++ [a])%list = (l ++ [b])%list.
Proof. induction l; simpl; auto. f_equal. exact IHl. Qed.
Lemma seq_snoc n : seq 0 (S n) = (seq 0 n ++ [n])%list.
Proof. rewrite seq_S. reflexivity. Qed.

Lemma In_dict_append' k r d k' l : In (k', l) (dict_append k r d) ->
  In (k', l) d \/ (exists l0, l = (l0 ++ [r])%list /\ (l0 = [] \/ In (k', l0) d)).
Proof.
  induction d as [|[k2 l2] rest IH]; simpl.
  - intros [X | []]. inversion X; subst. right. exists []. auto.
  - destruct (String.eqb k k2) eqn:E; simpl.
    + apply String.eqb_eq in E. subst k2. intros [X | X]; auto.
      inversion X; subst. right. exists l2. auto.
    + intros [X | X]; auto. destruct (IH X) as [Y | (l0 & -> & [Z | Z])]; auto.
      * right. exists l0. auto.
      * right. exists l0. auto.
Qed.

Theorem set_instruction_gen g m mn ops lt tp : rel g m -> forms_ok (m_forms m) ops ->
  exists g', g_set_instruction T self_isa shipped g mn ops lt tt tp tt = GOk g' /\
             rel g' (set_instruction repaired x86 m (mkform mn ops tp lt)).
Proof.
  intros R F. unfold g_set_instruction. rewrite (get_instruction_gen g m mn ops R F). cbn [gbind]. cbn beta zeta.
  unfold set_instruction. cbn [f_mnemonic f_operands].
  destruct R as (H1 & H2 & H3 & H4).
  destruct g as [gh gl gd]; cbn [g_heap g_forms g_dict] in *; subst gh gd gl.
  set (cands := match assoc (py_upper mn) (m_dict m) with Some l => l | None => [] end).
  assert (CV : forall i, In (RForm i) cands -> i < length (m_forms m)).
  { intros i I. unfold cands in I. destruct (assoc (py_upper mn) (m_dict m)) as [l|] eqn:A; [|destruct I].
    eapply H4; eauto. apply assoc_In'. exact A. }
  destruct (find (matches repaired x86 (m_forms m) ops) cands) as [[n|i]|] eqn:FD.
  - (* an object of the shipped model: not tracked, not dumped *)
    eexists. split; [reflexivity|]. repeat split; auto.
  - (* an earlier imported form: overwritten in place *)
    apply find_some in FD. destruct FD as [IN _]. specialize (CV i IN).
    eexists. split; [reflexivity|]. unfold ref_update. cbn [g_heap g_forms g_dict].
    unfold hset. rewrite !list_set_twice. repeat split; cbn [m_forms m_dict g_heap g_forms g_dict].
    + f_equal. unfold hget. rewrite !nth_list_set_same by (rewrite ?length_list_set; lia).
      reflexivity.
    + rewrite length_list_set. reflexivity.
    + intros k l j K I. rewrite length_list_set. eapply H4; eauto.
  - (* a new form: allocated, appended to both containers, then filled *)
    eexists. split; [reflexivity|]. unfold mm_alloc, mm_forms_append, mm_dict_append, ref_update. cbn [g_heap g_forms g_dict fst snd].
    unfold hset. rewrite !list_set_twice. repeat split; cbn [m_forms m_dict g_heap g_forms g_dict].
    + rewrite list_set_app_new. f_equal. f_equal. unfold hget.
      rewrite !nth_list_set_same by (rewrite ?length_list_set, app_length; simpl; lia).
      reflexivity.
    + rewrite app_length. simpl. rewrite Nat.add_1_r, seq_snoc, map_app. reflexivity.
    + intros k l j K I. rewrite app_length. simpl. apply In_dict_append' in K.
      destruct K as [K | (l0 & -> & Z)].
      * specialize (H4 _ _ _ K I). lia.
      * apply in_app_or in I. destruct I as [I | [I | []]].
        -- destruct Z as [-> | Z]; [destruct I|]. specialize (H4 _ _ _ Z I). lia.
        -- inversion I; subst. lia.
Qed.

Theorem set_instruction_entry_gen g m (e : iform T) : rel g m -> forms_ok (m_forms m) (f_operands e) ->
  exists g', g_set_instruction_entry T self_isa shipped g e = GOk g' /\ rel g' (set_instruction repaired x86 m e).
Proof.
  intros R F. unfold g_set_instruction_entry.
  destruct (set_instruction_gen g m (f_mnemonic e) (f_operands e) (f_lt e) (f_tp e) R F) as (g' & E & R').
  rewrite E. cbn [gbind]. exists g'. split; [reflexivity|]. destruct e; exact R'.
Qed.

(* ------------------------------------------------------------------ import_benchmark_output *)
Definition g0 (existing : list (string * list nat)) : gmm T :=
  mkgmm [] [] (map (fun p => (fst p, map RExisting (snd p))) existing).
Definition m0 (existing : list (string * list nat)) : mm T :=
  mkmm [] (map (fun p => (fst p, map RExisting (snd p))) existing).
Lemma rel0 existing : rel (g0 existing) (m0 existing).
Proof.
  repeat split. intros k l i K R. exfalso. apply in_map_iff in K. destruct K as ([k0 l0] & E & _). simpl in E.
  inversion E; subst. apply in_map_iff in R. destruct R as (x & X & _). discriminate.
Qed.

(* every pair of operand lists of the imported entries can be compared by the ordered comparison *)
Definition entries_ok (entries : list (iform T)) : Prop :=
  forall e, In e entries -> ok_ops (f_operands e) /\ forall e', In e' entries -> eq_ok (f_operands e') (f_operands e).

Lemma In_list_set' {A} i (v : A) l x : In x (list_set i v l) -> x = v \/ In x l.
Proof.
  revert i. induction l as [|y r IH]; intros [|j]; simpl; try tauto.
  - intros [X | X]; auto.
  - intros [X | X]; auto. apply IH in X. tauto.
Qed.
Lemma set_instruction_forms_sub (m : mm T) e f :
  In f (m_forms (set_instruction repaired x86 m e)) -> f = e \/ In f (m_forms m).
Proof.
  unfold set_instruction.
  destruct (find _ _) as [[n|i]|]; cbn [m_forms]; auto.
  - apply In_list_set'.
  - intro I. apply in_app_or in I. destruct I as [I | [I | []]]; auto.
Qed.
Lemma assoc_nodup_in {A} k (e : A) d : NoDup (map fst d) -> In (k, e) d -> assoc k d = Some e.
Proof.
  induction d as [|[k' e'] r IH]; simpl; intros ND I; [destruct I|]. inversion ND; subst.
  destruct I as [I | I].
  - inversion I; subst. rewrite String.eqb_refl. reflexivity.
  - destruct (String.eqb k k') eqn:E; [|auto]. apply String.eqb_eq in E. subst k'.
    exfalso. apply H1. apply in_map_iff. exists (k, e). auto.
Qed.

Lemma import_loop d : NoDup (map fst d) -> entries_ok (map snd d) ->
  forall part pre, d = (pre ++ part)%list -> forall g m, rel g m -> (forall f, In f (m_forms m) -> In f (map snd d)) ->
  exists g',
    py_for_ctl (map fst part) g
      (fun entry (st_ : gmm T) =>
         gbind (py_dict_get d entry) (fun t7_ =>
         gbind (g_set_instruction_entry T self_isa shipped st_ t7_) (fun m_ => GOk (CNext m_)))) = GOk g'
    /\ rel g' (fold_left (set_instruction repaired x86) (map snd part) m).
Proof.
  intros ND OK part. induction part as [|[k e] r IH]; intros pre E g m R SUB.
  - exists g. split; [reflexivity | exact R].
  - cbn [map fst snd py_for_ctl fold_left].
    assert (IN : In (k, e) d) by (rewrite E; apply in_or_app; right; left; reflexivity).
    unfold py_dict_get. rewrite (assoc_nodup_in k e d ND IN). cbn [g_of_opt gbind].
    assert (INe : In e (map snd d)) by (apply in_map_iff; exists (k, e); auto).
    destruct (OK e INe) as [O1 O2].
    assert (F : forms_ok (m_forms m) (f_operands e)).
    { split; [exact O1|]. apply Forall_forall. intros f I. apply O2. apply SUB. exact I. }
    destruct (set_instruction_entry_gen g m e R F) as (g1 & E1 & R1). rewrite E1. cbn [gbind].
    apply (IH (pre ++ [(k, e)])%list); [rewrite <- app_assoc; exact E | exact R1 |].
    intros f I. apply set_instruction_forms_sub in I. destruct I as [-> | I]; auto.
Qed.

Lemma map_nth_seq {A} (l : list A) d : map (fun i => nth i l d) (seq 0 (length l)) = l.
Proof.
  induction l as [|x r IH]; [reflexivity|]. cbn [length]. rewrite <- cons_seq, <- seq_shift. cbn [map nth].
  f_equal. rewrite map_map. exact IH.
Qed.
Lemma dumped_forms_rel g m : rel g m -> dumped_forms g = m_forms m.
Proof.
  intros (H1 & _ & H3 & _). unfold dumped_forms. rewrite H3, H1. unfold hget.
  transitivity (map (fun i => nth i (m_forms m) blank_form) (seq 0 (length (m_forms m)))); [|apply map_nth_seq].
  generalize (seq 0 (length (m_forms m))). intro s. induction s; simpl; [reflexivity | f_equal; exact IHs].
Qed.

Definition dec0 (c : string) : option pydict := g_create_db_operand c (py_lower self_isa).
Definition vald0 := g_validate_measurement T N.

Theorem import_gen_is_model : forall bench existing lines out_none,
  bench = "ibench" \/ bench = "asmbench" ->
  (forall d, (if String.eqb bench "ibench" then get_ibench_output vald0 dec0 pf repaired lines
              else get_asmbench_output vald0 dec0 pf repaired lines) = Ok d ->
             NoDup (map fst d) /\ entries_ok (map snd d)) ->
  g_import_benchmark_output T N pf self_isa shipped bench (g0 existing) lines out_none
  = gres_of (bind (import_benchmark vald0 dec0 pf repaired x86 (String.eqb bench "ibench") existing lines)
                  (fun forms => Ok (Some forms))).
Proof.
  intros bench existing lines b HB HD. unfold g_import_benchmark_output, import_benchmark. cbn beta zeta.
  unfold g_get_ISA.
  assert (P : (if String.eqb bench "ibench" then g_get_ibench_output T N pf lines (py_lower self_isa)
               else g_get_asmbench_output T N pf lines (py_lower self_isa))
              = gres_of (if String.eqb bench "ibench" then get_ibench_output vald0 dec0 pf repaired lines
                         else get_asmbench_output vald0 dec0 pf repaired lines)).
  { destruct (String.eqb bench "ibench"); [apply ibench_gen_is_model | apply asmbench_gen_is_model]. }
  assert (K : forall d, (if String.eqb bench "ibench" then get_ibench_output vald0 dec0 pf repaired lines
              else get_asmbench_output vald0 dec0 pf repaired lines) = Ok d ->
     match Some d with
     | None => GErr GType
     | Some d6_ =>
        gbind (py_for_ctl (py_dict_keys d6_) (g0 existing)
                 (fun entry (st_ : gmm T) =>
                    gbind (py_dict_get d6_ entry) (fun t7_ =>
                    gbind (g_set_instruction_entry T self_isa shipped st_ t7_) (fun m_ => GOk (CNext m_)))))
              (fun st_ => if b then GOk (Some (dumped_forms st_)) else GOk (Some (dumped_forms st_)))
     end = GOk (Some (insert_all repaired x86 existing (map snd d)))).
  { intros d E. destruct (HD d E) as [ND OK].
    destruct (import_loop d ND OK d [] eq_refl (g0 existing) (m0 existing) (rel0 existing)) as (g' & E1 & R1).
    { intros f []. }
    unfold py_dict_keys. rewrite E1. cbn [gbind]. rewrite (dumped_forms_rel _ _ R1).
    unfold insert_all. destruct b; reflexivity. }
  destruct HB as [-> | ->]; cbn [String.eqb Ascii.eqb Bool.eqb py_in_list existsb orb negb] in *.
  - rewrite P. destruct (get_ibench_output vald0 dec0 pf repaired lines) as [d|e]; cbn [gres_of gbind bind]; [|reflexivity].
    apply (K d eq_refl).
  - rewrite P. destruct (get_asmbench_output vald0 dec0 pf repaired lines) as [d|e]; cbn [gres_of gbind bind]; [|reflexivity].
    apply (K d eq_refl).
Qed.
End MM.

(* ================================================================== the operand dicts the decoders produce *)
Lemma dec_canon isa c d : g_create_db_operand c isa = Some d -> canon d.
Proof.
  unfold g_create_db_operand, g_create_db_operand_x86, g_create_db_operand_aarch64, canon, operand_shapes.
  repeat match goal with |- context [if ?c then _ else _] => destruct c end;
    intro H; inversion H; subst; cbn [map fst]; simpl; tauto.
Qed.

Ltac explode a H :=
  let k := fresh "k" in let v := fresh "v" in let r := fresh "r" in
  destruct a as [|[k v] r]; cbn [map fst] in H;
  [try discriminate H | try discriminate H; injection H as ? H; subst; try (explode r H)].

Lemma canon_nostar a : canon a -> pd_has_key "*" a = false.
Proof.
  unfold canon, operand_shapes. intro H. cbn [In] in H.
  repeat (destruct H as [H | H]); try contradiction; explode a H; reflexivity.
Qed.
Lemma canon_eq a b : canon a -> canon b -> py_dict_eq a b = pydict_eqb a b.
Proof.
  unfold canon, operand_shapes. intros Ha Hb. cbn [In] in Ha, Hb.
  repeat (destruct Ha as [Ha | Ha]); try contradiction; explode a Ha;
  repeat (destruct Hb as [Hb | Hb]); try contradiction; explode b Hb;
  cbn; repeat match goal with |- context [pyval_eqb ?x ?y] => destruct (pyval_eqb x y) end; reflexivity.
Qed.

(* ================================================================== what the parsers emit *)
Section Outputs.
Variable T : Type.
Variable N : NumOps T.
Variable pf : string -> option T.
Variable isa : string.
Notation vald := (g_validate_measurement T N).
Notation dec := (fun c : string => g_create_db_operand c isa).

Definition canon_form (e : iform T) : Prop := Forall canon (f_operands e) /\ f_operands e <> [].

Lemma map_res_canon l : forall ops,
  map_res (fun c => match g_create_db_operand c isa with Some d => Ok d | None => Err EValue end) l = Ok ops -> Forall canon ops.
Proof.
  induction l as [|x r IH]; simpl; intros ops H.
  - inversion H. constructor.
  - destruct (g_create_db_operand x isa) eqn:D; simpl in H; [|discriminate].
    destruct (map_res _ r) eqn:M; simpl in H; [|discriminate]. inversion H; subst.
    constructor; [eapply dec_canon; eauto | apply IH; reflexivity].
Qed.
Lemma new_entry_canon name e : new_entry T dec name = Ok e -> canon_form e.
Proof.
  intro NE. split; [|eapply new_entry_nonempty; exact NE]. revert NE.
  unfold new_entry. destruct (nth_error _ 1); [|discriminate]. unfold decode_ops.
  destruct (map_res _ _) eqn:M; simpl; [|discriminate]. intro H. inversion H; subst. simpl.
  eapply map_res_canon; eauto.
Qed.
Lemma In_assoc_set {A} k (v : A) d k' x : In (k', x) (assoc_set k v d) -> x = v \/ In (k', x) d.
Proof.
  induction d as [|[k2 v2] r IH]; simpl.
  - intros [X | []]. inversion X; auto.
  - destruct (String.eqb k k2); simpl; intros [X | X]; auto; [inversion X; auto | destruct (IH X); auto].
Qed.
Lemma assoc_In2 {A} k (d : list (string * A)) l : assoc k d = Some l -> exists k', In (k', l) d.
Proof.
  induction d as [|[k2 v2] r IH]; simpl; [discriminate|].
  destruct (String.eqb k k2); intro H; [inversion H; subst; eauto | destruct (IH H); eauto].
Qed.

Lemma ibench_canon toks : (forall t, In t toks -> forall e, t_new t = Ok e -> canon_form e) ->
  forall d0 d, (forall k e, In (k, e) d0 -> canon_form e) -> ibench_fold vald toks d0 = Ok d ->
  forall k e, In (k, e) d -> canon_form e.
Proof.
  induction toks as [|t r IH]; intros NW d0 d P0 H.
  - unfold ibench_fold in H. simpl in H. inversion H; subst. exact P0.
  - rewrite ibench_fold_cons in H. destruct (ibench_step vald d0 t) as [d1|] eqn:S; [|discriminate].
    apply (IH (fun t' I => NW t' (or_intror I)) d1 d); [|exact H].
    unfold ibench_step in S.
    assert (E0 : exists e0, (match assoc (t_key t) d0 with Some e => Ok e | None => t_new t end) = Ok e0 /\ canon_form e0).
    { destruct (assoc (t_key t) d0) as [e0|] eqn:A.
      - exists e0. split; auto. destruct (assoc_In2 _ _ _ A) as (k' & I). eapply P0; eauto.
      - destruct (t_new t) as [e0|] eqn:Nw; [|discriminate S]. exists e0. split; auto. eapply NW; eauto. left. reflexivity. }
    destruct E0 as (e0 & E0 & C0). rewrite E0 in S. cbn [bind] in S.
    assert (E1 : exists e1, d1 = assoc_set (t_key t) e1 d0 /\ canon_form e1).
    { destruct (t_kind t); [destruct (t_meas t); simpl in S; inversion S; eexists; split; eauto
                           | destruct (t_meas t); simpl in S; inversion S; eexists; split; eauto
                           | simpl in S; inversion S; eexists; split; eauto]. }
    destruct E1 as (e1 & -> & C1). intros k e I. apply In_assoc_set in I. destruct I as [-> | I]; eauto.
Qed.

Lemma tokens_new_canon lines t : In t (ibench_tokens dec pf repaired lines) -> forall e, t_new t = Ok e -> canon_form e.
Proof.
  induction lines as [|l r IH]; simpl; [tauto|].
  destruct (ibench_token dec pf repaired l) eqn:E; simpl; auto.
  intros [X | X]; auto. subst. unfold ibench_token in E. destruct (orb _ _); [discriminate|]. inversion E; subst. simpl.
  apply new_entry_canon.
Qed.

Lemma asm_canon lines : forall d d', asm_go vald dec pf repaired lines d = Ok d' ->
  (forall k e, In (k, e) d -> canon_form e) -> forall k e, In (k, e) d' -> canon_form e.
Proof.
  assert (H : forall n lines, length lines <= n -> forall d d', asm_go vald dec pf repaired lines d = Ok d' ->
              (forall k e, In (k, e) d -> canon_form e) -> forall k e, In (k, e) d' -> canon_form e).
  { induction n; intros ls L d d' E P0.
    - destruct ls; simpl in L; try lia. simpl in E. inversion E; subst; auto.
    - destruct ls as [|a [|b [|c [|x y]]]]; simpl in E; try (inversion E; subst; auto; fail).
      destruct (negb _); [inversion E; subst; auto|].
      destruct (asm_entry vald dec pf a b c) as [[k0 e0]|] eqn:AE; simpl in E; [|discriminate].
      refine (IHn y _ _ d' E _); [simpl in L; lia|].
      intros k e I. apply In_assoc_set in I. destruct I as [-> | I]; eauto.
      unfold asm_entry in AE. destruct (new_entry T dec (strip a)) as [ne|] eqn:NE; simpl in AE; [|discriminate].
      destruct (measurement pf c); simpl in AE; [|discriminate]. destruct (measurement pf b); simpl in AE; [|discriminate].
      inversion AE; subst. apply new_entry_canon in NE. exact NE. }
  intros. eapply H; eauto.
Qed.

Lemma canon_entries_ok (d : list (string * iform T)) : (forall k e, In (k, e) d -> canon_form e) ->
  entries_ok T (map snd d).
Proof.
  intros P e I. apply in_map_iff in I. destruct I as ([k e1] & <- & I). simpl. pose proof (proj1 (P _ _ I)) as C. split.
  - unfold ok_ops. eapply Forall_impl; [|exact C]. intros a. apply canon_nostar.
  - intros e' I'. apply in_map_iff in I'. destruct I' as ([k' e2] & <- & I'). simpl. pose proof (proj1 (P _ _ I')) as C'.
    unfold eq_ok. eapply Forall_impl; [|exact C']. intros a Ca. eapply Forall_impl; [|exact C]. intros b Cb.
    apply canon_eq; auto.
Qed.
End Outputs.

(* ================================================================== property theorems for the regenerated code *)
From OV Require Props.C20.
Import Props.C20.

Definition isa_ok (self_isa : string) : Prop := py_lower self_isa = "x86" \/ py_lower self_isa = "aarch64".
Definition shipped_ok (shipped : nat -> list oper) : Prop :=
  forall n, length (shipped n) = n /\ Forall (fun o => oper_is_dict o = false) (shipped n).

(* T1: the regenerated _get_ibench_output IS Model/Import.v's get_ibench_output (suffix variant), on every
   list of lines, every ISA string, every number type and float parser, error outcomes included *)
Theorem C20glue_ibench_is_model : forall T (N : NumOps T) pf isa lines,
  g_get_ibench_output T N pf lines isa
  = gres_of (get_ibench_output (g_validate_measurement T N) (fun c => g_create_db_operand c isa) pf repaired lines).
Proof. exact ibench_gen_is_model. Qed.
Print Assumptions C20glue_ibench_is_model.

(* T2: the same for _get_asmbench_output (bounds-checked variant) *)
Theorem C20glue_asmbench_is_model : forall T (N : NumOps T) pf isa lines,
  g_get_asmbench_output T N pf lines isa
  = gres_of (get_asmbench_output (g_validate_measurement T N) (fun c => g_create_db_operand c isa) pf repaired lines).
Proof. exact asmbench_gen_is_model. Qed.
Print Assumptions C20glue_asmbench_is_model.

(* T3: set_instruction (through get_instruction / _match_operands / _check_operands on DB-format operands)
   simulates the hand model's set_instruction with exact operand matching *)
Theorem C20glue_set_instruction_is_model : forall T self_isa shipped, isa_ok self_isa -> shipped_ok shipped ->
  forall g m mn ops lt tp, rel T g m -> forms_ok T (m_forms m) ops ->
  exists g', g_set_instruction T self_isa shipped g mn ops lt tt tp tt = GOk g' /\
             rel T g' (set_instruction repaired (x86 self_isa) m (mkform mn ops tp lt)).
Proof. intros T self_isa shipped HI HS g m mn ops lt tp R F. eapply set_instruction_gen; eauto. Qed.
Print Assumptions C20glue_set_instruction_is_model.

(* T4: the whole of import_benchmark_output (parse, insert every entry in dict order, dump) IS the hand model *)
Theorem C20glue_import_is_model : forall T (N : NumOps T) pf self_isa shipped, isa_ok self_isa -> shipped_ok shipped ->
  forall bench existing lines out_none, bench = "ibench" \/ bench = "asmbench" ->
  g_import_benchmark_output T N pf self_isa shipped bench (g0 T existing) lines out_none
  = gres_of (bind (import_benchmark (g_validate_measurement T N) (fun c => g_create_db_operand c (py_lower self_isa)) pf
                                    repaired (x86 self_isa) (String.eqb bench "ibench") existing lines)
                  (fun forms => Ok (Some forms))).
Proof.
  intros T N pf self_isa shipped HI HS bench existing lines b HB.
  apply import_gen_is_model; auto.
  intros d E. unfold dec0, vald0 in E. destruct HB as [-> | ->]; cbn [String.eqb Ascii.eqb Bool.eqb] in E.
  - split.
    + exact (proj1 (ibench_merge _ _ _ _ _ _ _ E)).
    + apply canon_entries_ok. unfold get_ibench_output in E.
      eapply ibench_canon; [| |exact E].
      * intros t I. eapply tokens_new_canon; eauto.
      * intros k e [].
  - split.
    + unfold get_asmbench_output in E. eapply asm_nodup; [exact E | constructor].
    + apply canon_entries_ok. unfold get_asmbench_output in E. eapply asm_canon; [exact E|]. intros k e [].
Qed.
Print Assumptions C20glue_import_is_model.

(* ---- the C20 statements, now about the regenerated code *)
(* TP and LT lines of one form are merged whatever their distance / order in the file: one entry per key, and the
   entry's throughput / latency is the snapped measurement of the LAST TP / LT line with that key *)
Theorem C20glue_ibench_merge : forall T (N : NumOps T) pf isa lines d,
  g_get_ibench_output T N pf lines isa = GOk d ->
  let validate := g_validate_measurement T N in
  let toks := ibench_tokens (fun c => g_create_db_operand c isa) pf repaired lines in
  NoDup (map fst d) /\
  (forall k, In k (map fst d) <-> exists t, In t toks /\ t_key t = k) /\
  (forall k e, assoc k d = Some e ->
     f_tp e = final_val T validate KTP "tp" k toks None /\ f_lt e = final_val T validate KLT "lt" k toks None).
Proof.
  intros T N pf isa lines d H. rewrite C20glue_ibench_is_model in H.
  destruct (get_ibench_output _ _ pf repaired lines) as [d'|] eqn:E; simpl in H; [|discriminate].
  inversion H; subst d'. exact (ibench_merge _ _ _ _ _ _ _ E).
Qed.
Print Assumptions C20glue_ibench_merge.

(* a malformed asmbench block stops the import there and keeps the earlier entries *)
Theorem C20glue_asmbench_prefix : forall T (N : NumOps T) pf isa good bad,
  good_blocks good -> malformed_head repaired bad ->
  g_get_asmbench_output T N pf (good ++ bad) isa = g_get_asmbench_output T N pf good isa.
Proof.
  intros. rewrite !C20glue_asmbench_is_model. f_equal. apply asmbench_prefix; assumption.
Qed.
Print Assumptions C20glue_asmbench_prefix.


(* every imported form appears in the dump (under its own values or those of a later entry of the same form)
   and nothing is invented *)
Theorem C20glue_import_all_forms_appear : forall T (N : NumOps T) pf self_isa shipped, isa_ok self_isa -> shipped_ok shipped ->
  forall bench existing lines out_none forms, bench = "ibench" \/ bench = "asmbench" ->
  g_import_benchmark_output T N pf self_isa shipped bench (g0 T existing) lines out_none = GOk (Some forms) ->
  exists d, (if String.eqb bench "ibench"
             then g_get_ibench_output T N pf lines (py_lower self_isa)
             else g_get_asmbench_output T N pf lines (py_lower self_isa)) = GOk d /\
    (forall e, In e (map snd d) -> exists f, In f forms /\ same_form T f e) /\
    (forall f, In f forms -> In f (map snd d)).
Proof.
  intros T N pf self_isa shipped HI HS bench existing lines b forms HB H.
  rewrite (C20glue_import_is_model T N pf self_isa shipped HI HS bench existing lines b HB) in H.
  unfold import_benchmark in H.
  assert (SM : sound_matching repaired (x86 self_isa)) by (right; reflexivity).
  destruct HB as [-> | ->]; cbn [String.eqb Ascii.eqb Bool.eqb] in *.
  - rewrite C20glue_ibench_is_model.
    destruct (get_ibench_output _ _ pf repaired lines) as [d|] eqn:E; simpl in H; [|discriminate].
    inversion H; subst forms. exists d. split; [reflexivity|].
    apply import_all_forms_appear; auto.
    intros e I. apply in_map_iff in I. destruct I as ([k e'] & <- & I). simpl.
    unfold get_ibench_output in E.
    assert (C : canon_form T e').
    { eapply ibench_canon; [ | | exact E | exact I]; [intros t I'; eapply tokens_new_canon; eauto | intros k0 e0 []]. }
    exact (proj2 C).
  - rewrite C20glue_asmbench_is_model.
    destruct (get_asmbench_output _ _ pf repaired lines) as [d|] eqn:E; simpl in H; [|discriminate].
    inversion H; subst forms. exists d. split; [reflexivity|].
    apply import_all_forms_appear; auto.
    intros e I. apply in_map_iff in I. destruct I as ([k e'] & <- & I). simpl.
    unfold get_asmbench_output in E.
    assert (C : canon_form T e').
    { eapply asm_canon; [exact E | | exact I]. intros k0 e0 []. }
    exact (proj2 C).
Qed.
Print Assumptions C20glue_import_all_forms_appear.

(* 0 / 0.0 is a value, not "missing": set_instruction stores the latency and throughput it is given, whatever
   they are (in particular Some zero), also when it overwrites an earlier imported form *)
Theorem C20glue_set_instruction_stores_given_values : forall T self_isa shipped, isa_ok self_isa -> shipped_ok shipped ->
  forall g m mn ops lt tp, rel T g m -> forms_ok T (m_forms m) ops -> ops <> [] ->
  exists g', g_set_instruction T self_isa shipped g mn ops lt tt tp tt = GOk g' /\
             In (mkform mn ops tp lt) (dumped_forms g').
Proof.
  intros T self_isa shipped HI HS g m mn ops lt tp R F NE.
  destruct (C20glue_set_instruction_is_model T self_isa shipped HI HS g m mn ops lt tp R F) as (g' & E & R').
  exists g'. split; [exact E|]. erewrite dumped_forms_rel; [|exact R'].
  destruct R as (_ & _ & _ & V). unfold set_instruction. cbn [f_mnemonic f_operands].
  destruct (assoc (py_upper mn) (m_dict m)) as [cands|] eqn:A.
  2: { cbn [find m_forms]. apply in_or_app. right. left. reflexivity. }
  destruct (find _ cands) as [[n|i]|] eqn:FD; cbn [m_forms].
  - exfalso. apply find_some in FD. destruct FD as [_ FD]. unfold matches in FD. cbn [v_exact_match repaired] in FD.
    rewrite andb_false_r in FD. apply andb_true_iff in FD. destruct FD as [_ FD]. apply Nat.eqb_eq in FD.
    destruct ops; [congruence | discriminate].
  - apply find_some in FD. destruct FD as [IN _].
    assert (L : i < length (m_forms m)) by (eapply V; [apply assoc_In'; exact A | exact IN]).
    clear - L. revert i L. induction (m_forms m) as [|x r IH]; intros [|i] L; simpl in *; try lia; auto.
    right. apply IH. lia.
  - apply in_or_app. right. left. reflexivity.
Qed.
Print Assumptions C20glue_set_instruction_stores_given_values.

(* ---- non-vacuity: concrete evaluations over exact rationals *)
From Coq Require Import QArith.
Definition pfQ (s : string) : option Q :=
  if String.eqb s "1.0" then Some 1%Q else if String.eqb s "0.5" then Some (1 # 2)%Q
  else if String.eqb s "4.0" then Some 4%Q else if String.eqb s "0.0" then Some 0%Q else if String.eqb s "1.5" then Some (3 # 2)%Q else None.
Definition shippedQ (n : nat) : list oper := repeat (OObj KRegister (fun _ => PNone)) n.
Definition run_x86 (bench : string) (lines : list string) :=
  g_import_benchmark_output Q QNum pfQ "x86" shippedQ bench (g0 Q []) lines false.
Definition tpl (r : gres (option (list (iform Q)))) : list (string * nat * bool * bool) :=
  match r with
  | GOk (Some l) => map (fun f => (f_mnemonic f, length (f_operands f), is_some (f_tp f), is_some (f_lt f))) l
  | _ => []
  end.
Example C20glue_nonvacuous :
  isa_ok "x86" /\ shipped_ok shippedQ /\
  (* TP and LT of form A three lines apart, another form in between, a latency of 0.0 and one out of tolerance *)
  tpl (run_x86 "ibench" ["A-r_r-TP: 1.0 x" ++ nl; "B-x-TP: 0.5 x" ++ nl; "B-x-LT: 1.5 x" ++ nl; "A-r_r-LT: 0.0 x" ++ nl])
    = [("A", 2%nat, true, true); ("B", 1%nat, true, false)] /\
  (* a truncated third block: the first two stay *)
  tpl (run_x86 "asmbench" ["a-r" ++ nl; "Latency: 4.0 cy" ++ nl; "Throughput: 0.5 cy" ++ nl; nl;
                           "b-r" ++ nl; "Latency: 4.0 cy" ++ nl; "Throughput: 0.5 cy" ++ nl; nl; "c-r" ++ nl; "Latency: 4.0 cy" ++ nl])
    = [("a", 1%nat, true, true); ("b", 1%nat, true, true)] /\
  run_x86 "other" [] = GErr GValue.
Proof.
  split; [left; reflexivity|]. split.
  - intro n. split; [apply repeat_length|]. unfold shippedQ. induction n; simpl; constructor; auto.
  - vm_compute. repeat split.
Qed.
