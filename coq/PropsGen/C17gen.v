(* C17 -- translator tie (T): the cache protocol REGENERATED from the current source of
     MachineModel.__init__ / _get_cached / _write_in_cache / _write_cachefile   (osaca/semantics/hw_model.py)
   by tools/gen_c17.py (OVC.CacheGen: programs over the world operations of Model/PyCache.v) is proved equal to the
   load of the hand model Model/Cache.v -- for every world -- and the key theorems of Props/C17.v are restated for it.

   The world (file system, pickle, hashlib, os.access / os.makedirs / os.replace / os.getpid, the YAML parser, the
   exception class pickle.load raises on garbage) is a parameter: E : genv and the state (yaml, files, runtime cache).
   Compiled by checks/c17.py (harness/c17_tie.py) against the text generated in that run. *)
From Coq Require Import List Arith Bool String Lia.
From OV Require Import Model.Cache Proofs.Cache Model.PyCache Proofs.PyCache.
From OVC Require Import CacheGen.
Import ListNotations.
Open Scope string_scope. Open Scope nat_scope.

(* ------------------------------------------------------------------ how the regenerated code is run *)
(* a fresh instance: the class attribute INTERNAL_VERSION as written in the source *)
Definition self0 : val := VObj [("INTERNAL_VERSION", VInt g_INTERNAL_VERSION)].
(* MachineModel(path_to_yaml=<pa>, lazy=lz) in a process whose runtime cache is rt *)
Definition g_load (E : genv) (y : path -> content) (fs : loc -> option bytes) (rt : list (pypath * val)) (pid : nat)
           (pa : path) (lz : bool) : ores * gst :=
  exec E (g__init__ self0 VNone (VPath (pp_of_path pa)) VNone (VBool lz)) (mkGst y fs rt pid).
Definition g_load_crash (E : genv) (kc : nat) (y : path -> content) (fs : loc -> option bytes) (rt : list (pypath * val))
           (pid : nat) (pa : path) : gres * gst :=
  exec_crash E kc (g__init__ self0 VNone (VPath (pp_of_path pa)) VNone (VBool false)) (mkGst y fs rt pid).
Definition data_of (r : ores) : option val :=
  match r with ROk (VObj f) => assoc f "_data" | _ => None end.

(* the number of neutral blocks (conversion of the parsed YAML) a fresh parse runs through: read off the regenerated
   code by running it on an empty world *)
Definition E00 : genv := mkGenv 1 0 (fun _ => false) false false (fun _ => CValueError) (fun _ => None).
Definition nblocks : nat := Eval vm_compute in
  match data_of (fst (g_load E00 (fun _ => 0) (fun _ => None) [] 0 (mkPath 0 0) false)) with
  | Some (VData d) => d_code d
  | _ => 0
  end.

(* the setup of Model/Cache.v the regenerated code is compared with: the repaired protocol *)
Definition env_of (E : genv) : env := mkEnv (ge_dirw E) (ge_mkdirs E && ge_homew E).
Definition setup_of (E : genv) : setup :=
  mkSetup (ge_nch E) (mkCfg (S g_INTERNAL_VERSION) (nblocks + ge_code E)) AtomicRename (env_of E) false RtIgnored.
(* pickle.load may raise any subclass of Exception on a garbage file *)
Definition garbage_ok (E : genv) : Prop := forall b, subclass (ge_garbage E b) CException = true.

Definition comp_pp (pa : path) (h : content) : pypath :=
  mkPP (DData (p_dir pa)) [ALit "."; AStem (p_stem pa); ALit "_"; AHash h; ALit ".pickle"].
Definition home_pp (pa : path) (h : content) : pypath :=
  mkPP DCache [AStem (p_stem pa); ALit "_"; AHash h; ALit ".pickle"].

Definition probe_val (w : setup) (y : path -> content) (fs : loc -> option bytes) (pa : path) : val :=
  match probe1 w fs (Comp (p_dir pa) (p_stem pa) (y pa)) with
  | Some d => VData d
  | None => match probe1 w fs (Home (p_stem pa) (y pa)) with Some d => VData d | None => VBool false end
  end.

Arguments pickle_load : simpl never.
Arguments subclass : simpl never.
Ltac subcls := repeat match goal with
  | H : subclass ?a ?b = _ |- context [subclass ?a ?b] => rewrite H
  | |- context [subclass ?a ?b] =>
      let v := eval vm_compute in (subclass a b) in
      lazymatch v with true => change (subclass a b) with true | false => change (subclass a b) with false end
  end.
Ltac rw := repeat match goal with H : ?l = ?r |- context [?l] => lazymatch l with (_ _) => rewrite H end end.
Ltac crunch := repeat (progress (cbn; subcls; rw; rewrite ?updf_same, ?Nat.eqb_refl)).

Ltac home_part L :=
  match goal with |- context [?ff (Home ?st ?hh)] =>
    let b2 := fresh "b2" in let F2 := fresh "F2" in
    destruct (ff (Home st hh)) as [b2|] eqn:F2; crunch;
    [ let c2 := fresh "c2" in let L2 := fresh "L2" in let S2 := fresh "S2" in
      destruct (L b2) as [c2 [L2 S2]]; rewrite L2;
      let iv2 := fresh "iv2" in let D2 := fresh "D2" in
      destruct (decode _ b2) as [[[|iv2] ? ?]|] eqn:D2; crunch; try reflexivity;
      let V2 := fresh "V2" in destruct (Nat.eqb iv2 g_INTERNAL_VERSION) eqn:V2; crunch; reflexivity
    | reflexivity ]
  end.

(* ------------------------------------------------------------------ 1. _get_cached *)
(* the regenerated lookup = companion first, then home; a file that cannot be unpickled (whatever pickle.load raises),
   is not a dict of the current INTERNAL_VERSION, or does not exist is a miss; the world is not changed; nothing is raised *)
Theorem C17gen_get_cached_is_probe :
  forall E, garbage_ok E -> forall f y fs rt pid pa,
    assoc f "INTERNAL_VERSION" = Some (VInt g_INTERNAL_VERSION) ->
    exec E (py_call (g_get_cached (VObj f) (VPath (pp_of_path pa)))) (mkGst y fs rt pid) =
    (ROk (probe_val (setup_of E) y fs pa), mkGst y fs rt pid).
Proof.
  intros E Hg f y fs rt pid [dir stem] Hiv.
  unfold g_get_cached, probe_val, probe1. cbn [p_dir p_stem w_nch setup_of w_cfg c_iv].
  cbn. rewrite Hiv.
  set (h := y {| p_dir := dir; p_stem := stem |}).
  assert (L : forall b, exists c, pickle_load E b = match decode (ge_nch E) b with Some d => ROk (VData d) | None => RErr (EPy c) end
                                  /\ subclass c CException = true).
  { intros b. unfold pickle_load. destruct (decode (ge_nch E) b); [exists CEOFError; split; reflexivity|].
    destruct b as [|[d|] r]; [exists CEOFError; split; reflexivity | | exists (ge_garbage E (None :: r)); split; [reflexivity|apply Hg]].
    destruct (is_prefix_of d (Some d :: r) && (Nat.ltb (List.length (Some d :: r)) (ge_nch E)));
      [exists CUnpicklingError; split; reflexivity | exists (ge_garbage E (Some d :: r)); split; [reflexivity|apply Hg]]. }
  destruct (fs (Comp dir stem h)) as [b1|] eqn:F1; crunch.
  - destruct (L b1) as [c1 [L1 S1]]. rewrite L1.
    destruct (decode (ge_nch E) b1) as [[[|iv1] co1 sr1]|] eqn:D1; crunch.
    + home_part L.
    + destruct (Nat.eqb iv1 g_INTERNAL_VERSION) eqn:V1; crunch; [reflexivity|]. home_part L.
    + home_part L.
  - home_part L.
Qed.
Print Assumptions C17gen_get_cached_is_probe.

(* ------------------------------------------------------------------ 2. _write_cachefile *)
Definition probe_pp (pa : path) (hm : bool) (h : content) : pypath := if hm then home_pp pa h else comp_pp pa h.

(* the regenerated writer: the pickle goes into <final name>.<pid>.tmp in the same directory and is moved over the final
   name by os.replace; the final name never holds anything but its old content or the complete pickle *)
Theorem C17gen_write_cachefile_atomic :
  forall E f d y fs rt pid pa hm h,
    assoc f "_data" = Some (VData d) ->
    exists F, exec E (py_call (g_write_cachefile (VObj f) (VPath (probe_pp pa hm h)))) (mkGst y fs rt pid) =
              (ROk VNone, mkGst y F rt pid) /\
              forall l, F l = apply_fx (ge_nch E) pid fs (FxWrite (probe_loc pa hm h) d) l.
Proof.
  intros E f d y fs rt pid [dir stem] hm h Hd.
  destruct hm; unfold g_write_cachefile; crunch; eexists; (split; [reflexivity|]);
    intros l; unfold updf; cbn;
    destruct l as [d' s' h'|s' h'|p']; cbn; try reflexivity;
    destruct (pid =? p'); reflexivity.
Qed.
Print Assumptions C17gen_write_cachefile_atomic.
Arguments g_write_cachefile : simpl never.

(* ------------------------------------------------------------------ 3. _write_in_cache *)
Ltac use_write_cachefile pa hm :=
  rewrite exec_py_call, exec_bind;
  match goal with
  | Hd : assoc ?f "_data" = Some (VData ?d) |- context [exec ?E (py_call (g_write_cachefile (VObj ?f) (VPath ?pp))) (mkGst ?y ?fs ?rt ?pid)] =>
      let F := fresh "F" in let EQ := fresh "EQ" in let HF := fresh "HF" in
      match pp with
      | context [AHash ?h] =>
          destruct (C17gen_write_cachefile_atomic E f d y fs rt pid pa hm h Hd) as [F [EQ HF]];
          unfold probe_pp, comp_pp, home_pp in EQ; cbn [p_dir p_stem] in EQ; rewrite EQ
      end
  end.

(* the regenerated choice of the write target: the companion file when os.access says the model file's directory is
   writable, else the home cache when os.makedirs works and that directory is writable, else nothing; the file is keyed
   by the hash that was handed in *)
Theorem C17gen_write_in_cache_is_target :
  forall E f d y fs rt pid pa h,
    assoc f "_data" = Some (VData d) ->
    exists F, exec E (py_call (g_write_in_cache (VObj f) (VPath (pp_of_path pa)) (VStr [AHash h]))) (mkGst y fs rt pid) =
              (ROk VNone, mkGst y F rt pid) /\
              forall l, F l = apply_fx (ge_nch E) pid fs
                                (match target (env_of E) pa h with Some t => FxWrite t d | None => FxNone end) l.
Proof.
  intros E f d y fs rt pid [dir stem] h Hd.
  unfold g_write_in_cache, target. cbn [env_of e_dirw e_homew p_dir p_stem]. crunch.
  destruct (ge_dirw E dir) eqn:W1; crunch.
  - use_write_cachefile (mkPath dir stem) false. crunch. exists F. split; [reflexivity|exact HF].
  - destruct (ge_mkdirs E) eqn:W2; crunch.
    + destruct (ge_homew E) eqn:W3; crunch.
      * use_write_cachefile (mkPath dir stem) true. crunch. exists F. split; [reflexivity|exact HF].
      * exists fs. split; reflexivity.
    + exists fs. split; reflexivity.
Qed.
Print Assumptions C17gen_write_in_cache_is_target.
Arguments g_write_in_cache : simpl never.
Arguments g_get_cached : simpl never.

(* ------------------------------------------------------------------ 4. __init__: the whole load *)
Ltac use_get_cached Hg :=
  rewrite exec_bind;
  match goal with
  | |- context [exec ?E (py_call (g_get_cached (VObj ?f) (VPath (pp_of_path ?pa)))) (mkGst ?y ?fs ?rt ?pid)] =>
      rewrite (C17gen_get_cached_is_probe E Hg f y fs rt pid pa eq_refl)
  end.

Theorem C17gen_load_is_spec :
  forall E, garbage_ok E -> forall y fs rt pid pa,
    let w := setup_of E in
    let d := fst (load_spec w y fs pa) in
    exists f F, g_load E y fs rt pid pa false = (ROk (VObj f), mkGst y F ((pp_of_path pa, VData d) :: rt) pid) /\
                assoc f "_data" = Some (VData d) /\
                forall l, F l = apply_fx (ge_nch E) pid fs (snd (load_spec w y fs pa)) l.
Proof.
  intros E Hg y fs rt pid pa w d.
  assert (Hpa : pp_of_path pa = mkPP (DData (p_dir pa)) [AStem (p_stem pa); ALit ".yml"]) by reflexivity.
  unfold g_load, g__init__. crunch.
  (* the runtime cache: consulted, whatever it holds is overwritten below *)
  destruct (rt_get rt (pp_of_path pa)) as [v0|] eqn:R0; rewrite Hpa in R0; crunch; rewrite <- Hpa.
  all: use_get_cached Hg.
  all: subst d; unfold load_spec, probe_val; fold w.
  all: destruct (probe1 w fs (Comp (p_dir pa) (p_stem pa) (y pa))) as [d1|] eqn:P1.
  all: try (crunch; do 2 eexists; split; [reflexivity|]; split; reflexivity).
  all: destruct (probe1 w fs (Home (p_stem pa) (y pa))) as [d2|] eqn:P2.
  all: try (crunch; do 2 eexists; split; [reflexivity|]; split; reflexivity).
  all: destruct pa as [dir stem]; crunch.
  all: rewrite exec_bind.
  all: match goal with
       | |- context [exec ?EE (py_call (g_write_in_cache (VObj ?f) (VPath ?pp) (VStr [AHash ?h]))) (mkGst ?y ?fs ?rt ?pid)] =>
           let F := fresh "F" in let EQ := fresh "EQ" in let HF := fresh "HF" in
           destruct (C17gen_write_in_cache_is_target EE f (parse (w_cfg w) h) y fs rt pid (mkPath dir stem) h eq_refl) as [F [EQ HF]];
           unfold pp_of_path in EQ; cbn [p_dir p_stem] in EQ; rewrite EQ
       end.
  all: crunch.
  all: do 2 eexists; split; [|split].
  all: try (destruct (target (env_of E) _ _); reflexivity).
  all: intros l; rewrite HF; destruct (target (env_of E) _ _); reflexivity.
Qed.
Print Assumptions C17gen_load_is_spec.

(* ------------------------------------------------------------------ 5. the regenerated load = the load of Model/Cache.v *)
(* for EVERY state of the model (any files, truncated / foreign / garbage included), any runtime-cache content rt of the
   process and any pid: the regenerated MachineModel(path_to_yaml=pa) returns the data, leaves the files and keeps the
   model files exactly as process pid of Model/Cache.v does when it runs the load alone (AtomicRename, key = hash of
   the parsed bytes, runtime cache never served); it never raises; afterwards _runtime_cache[pa] is the returned data *)
Theorem C17gen_load_is_model :
  forall E, garbage_ok E -> forall (s : state) rt pid pa prevd,
    let w := setup_of E in
    let s1 := solo w (fuel_of w) (start_state s pid pa false prevd) pid in
    exists f F d, g_load E (yaml s) (files s) rt pid pa false = (ROk (VObj f), mkGst (yaml s) F ((pp_of_path pa, VData d) :: rt) pid) /\
                  assoc f "_data" = Some (VData d) /\
                  outcome_of s1 pid = ODone d /\
                  yaml s1 = yaml s /\
                  forall l, F l = files s1 l.
Proof.
  intros E Hg s rt pid pa prevd w s1.
  destruct (C17gen_load_is_spec E Hg (yaml s) (files s) rt pid pa) as [f [F [EQ [HD HF]]]].
  destruct (solo_load_spec w s pid pa prevd eq_refl eq_refl eq_refl) as [A [B C]].
  exists f, F, (fst (load_spec w (yaml s) (files s) pa)). repeat split; auto.
  intros l. rewrite HF. symmetry. apply C.
Qed.
Print Assumptions C17gen_load_is_model.

(* through the model's own entry point: a load spawned by LSpawn in a state where pid is free *)
Corollary C17gen_load_is_model_load :
  forall E, garbage_ok E -> forall (s : state) rt pid pa,
    procs s pid = None ->
    let w := setup_of E in
    exists f F d, g_load E (yaml s) (files s) rt pid pa false = (ROk (VObj f), mkGst (yaml s) F ((pp_of_path pa, VData d) :: rt) pid) /\
                  assoc f "_data" = Some (VData d) /\
                  outcome_of (load w s pid pa false) pid = ODone d /\
                  forall l, F l = files (load w s pid pa false) l.
Proof.
  intros E Hg s rt pid pa Hp w.
  destruct (C17gen_load_is_model E Hg s rt pid pa None) as [f [F [d [EQ [HD [HO [HY HF]]]]]]].
  exists f, F, d. unfold load, spawn. cbn [run_skip step]. rewrite Hp. repeat split; auto.
Qed.
Print Assumptions C17gen_load_is_model_load.

(* ------------------------------------------------------------------ 6. the lazy (header-only) load *)
Theorem C17gen_lazy_load_cache_free :
  forall E y fs rt pid pa,
    exists f, g_load E y fs rt pid pa true = (ROk (VObj f), mkGst y fs rt pid) /\ assoc f "_data" = Some (VLazy (y pa)).
Proof.
  intros E y fs rt pid [dir stem]. unfold g_load, g__init__. crunch.
  destruct (rt_get rt _); crunch; eexists; split; reflexivity.
Qed.
Print Assumptions C17gen_lazy_load_cache_free.

(* ------------------------------------------------------------------ 7. the theorems of Props/C17.v, for the regenerated code *)
(* cache transparency after any history of the model: whatever interleaving of loads, crashes at any step and edits
   produced the state s (from a state that satisfies the invariant), the regenerated load returns the parse of the
   CURRENT content of the model file -- cold, companion-served and home-served loads are indistinguishable, an edit is
   picked up, a file left by a killed or racing writer is never served *)
Theorem C17gen_cache_transparent :
  forall E, garbage_ok E -> 0 < ge_nch E -> forall s0 ls s rt pid pa,
    let w := setup_of E in
    Inv w s0 -> run w s0 ls = Some s -> procs s pid = None ->
    exists f F, g_load E (yaml s) (files s) rt pid pa false =
                (ROk (VObj f), mkGst (yaml s) F ((pp_of_path pa, VData (parse (w_cfg w) (yaml s pa))) :: rt) pid) /\
                assoc f "_data" = Some (VData (parse (w_cfg w) (yaml s pa))).
Proof.
  intros E Hg Hn s0 ls s rt pid pa w HI HR Hp. subst w.
  destruct (C17gen_load_is_model_load E Hg s rt pid pa Hp) as [f [F [d [EQ [HD [HO HF]]]]]].
  pose proof (current_code_later_run_ok (ge_nch E) (w_cfg (setup_of E)) (env_of E) s0 ls s pid pa Hn HI HR Hp) as HL.
  assert (HL' : outcome_of (load (setup_of E) s pid pa false) pid = ODone (parse (w_cfg (setup_of E)) (yaml s pa))) by exact HL.
  cbv zeta in HO. rewrite HL' in HO. inversion HO; subst d. exists f, F. split; assumption.
Qed.
Print Assumptions C17gen_cache_transparent.

(* the same on the file system alone, as an invariant of sequential histories of the REGENERATED code: loads (any pid,
   any runtime cache), edits of model files, temp files in any state (what a killed writer leaves), truncated pickles
   of anything and complete pickles of another format version planted under final names.  Every load returns the parse of
   the current content and never raises. *)
Inductive gev :=
| GLoad (pid : nat) (pa : path) (rt : list (pypath * val))
| GEdit (pa : path) (c : content)
| GTmp (pid : nat) (b : option bytes)
| GTrunc (l : loc) (k : nat) (d : data)
| GForeign (l : loc) (b : bytes) (d : data).

Fixpoint ghist_ok (E : genv) (y : path -> content) (fs : loc -> option bytes) (evs : list gev) : Prop :=
  match evs with
  | [] => True
  | GLoad pid pa rt :: r =>
      data_of (fst (g_load E y fs rt pid pa false)) = Some (VData (parse (w_cfg (setup_of E)) (y pa))) /\
      ghist_ok E y (gs_files (snd (g_load E y fs rt pid pa false))) r
  | GEdit pa c :: r => ghist_ok E (updy y pa c) fs r
  | GTmp pid b :: r => ghist_ok E y (updf fs (Tmp pid) b) r
  | GTrunc l k d :: r => k <> ge_nch E -> ghist_ok E y (updf fs l (Some (repeat (Some d) k))) r
  | GForeign l b d :: r => decode (ge_nch E) b = Some d -> d_iv d <> S g_INTERNAL_VERSION -> ghist_ok E y (updf fs l (Some b)) r
  end.

Theorem C17gen_history_transparent :
  forall E, garbage_ok E -> forall evs y fs, KeyedF (setup_of E) fs -> ghist_ok E y fs evs.
Proof.
  intros E Hg. induction evs as [|ev r IH]; intros y fs HK; [exact I|].
  destruct ev as [pid pa rt|pa c|pid b|l k d|l b d]; cbn [ghist_ok].
  - destruct (C17gen_load_is_spec E Hg y fs rt pid pa) as [f [F [EQ [HD HF]]]]. cbv zeta in *.
    rewrite EQ. cbn [fst snd data_of gs_files]. rewrite HD.
    rewrite (load_spec_keyed _ _ _ _ HK). split; [reflexivity|].
    apply IH. eapply KeyedF_apply_fx; eauto.
  - apply IH, HK.
  - apply IH. eapply KeyedF_ext; [|exact HK]. intros l Hl. unfold updf. destruct l; cbn in *; try reflexivity. congruence.
  - intros Hk. apply IH. intros l' b' h d' Hl Hkd Hd Hv. unfold updf in Hl.
    destruct (loc_eqb l l') eqn:El; [|eapply HK; eauto].
    inversion Hl; subst b'. cbn [setup_of w_nch] in Hd. rewrite decode_prefix in Hd by exact Hk. discriminate.
  - intros Hd Hv. apply IH. intros l' b' h d' Hl Hkd Hd' Hv'. unfold updf in Hl.
    destruct (loc_eqb l l') eqn:El; [|eapply HK; eauto].
    inversion Hl; subst b'. cbn [setup_of w_nch w_cfg c_iv] in *. rewrite Hd in Hd'. inversion Hd'; subst d'. contradiction.
Qed.
Print Assumptions C17gen_history_transparent.

(* non-vacuity: the empty cache satisfies the invariant; cold load, warm load, edit, load, in one history *)
Example C17gen_history_nonvacuous :
  KeyedF (setup_of E00) (fun _ => None) /\
  ghist_ok E00 (fun _ => 7) (fun _ => None)
           [GLoad 0 (mkPath 0 0) []; GLoad 1 (mkPath 0 0) []; GEdit (mkPath 0 0) 8; GTrunc (Comp 0 0 8) 0 (mkData 0 0 0); GLoad 2 (mkPath 0 0) []].
Proof.
  split; [intros l b h d H; discriminate|].
  apply C17gen_history_transparent; [intros b; reflexivity | intros l b h d H; discriminate].
Qed.

(* ------------------------------------------------------------------ 8. an interrupted write *)
(* the writer killed after any number kc of chunks (no handler, no finally clause runs): every final name holds what it
   held before; only the temp file of this pid has changed *)
Theorem C17gen_killed_writer_leaves_final_names :
  forall E kc f d y fs rt pid pa hm h,
    assoc f "_data" = Some (VData d) ->
    exists F, exec_crash E kc (py_call (g_write_cachefile (VObj f) (VPath (probe_pp pa hm h)))) (mkGst y fs rt pid) =
              (GKilled, mkGst y F rt pid) /\
              forall l, F l = apply_fx_crash (ge_nch E) pid kc fs (FxWrite (probe_loc pa hm h) d) l.
Proof.
  intros E kc f d y fs rt pid [dir stem] hm h Hd.
  destruct hm; unfold g_write_cachefile; crunch; eexists; (split; [reflexivity|]);
    intros l; unfold updf; cbn;
    destruct l as [d' s' h'|s' h'|p']; cbn; try reflexivity;
    destruct (pid =? p'); reflexivity.
Qed.
Print Assumptions C17gen_killed_writer_leaves_final_names.
