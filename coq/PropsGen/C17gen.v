(* C17 -- translator tie (T): the cache protocol REGENERATED from the current source of
     MachineModel.__init__ / _get_cached / _write_in_cache / _write_cachefile   (osaca/semantics/hw_model.py)
   by tools/gen_c17.py (OVC.CacheGen: programs over the world operations of Model/PyCache.v) is proved equal to the
   load of the hand model Model/Cache.v -- for every world -- and the key theorems of Props/C17.v are restated for it.

   The world (file system, pickle, hashlib, os.access / os.makedirs / os.replace / os.getpid, the YAML parser, the
   exception class pickle.load raises on garbage) is a parameter: E : genv and the state (yaml, files, runtime cache).
   Compiled by checks/c17.py (harness/c17_tie.py) against the text generated in that run. *)
From Coq Require Import List Arith Bool String Lia.
From OV Require Import Model.Cache Proofs.Cache Model.PyCache Proofs.PyCache.
From OVC Require Import CacheGen.
Import ListNotations.
Open Scope string_scope. Open Scope nat_scope.

(* ------------------------------------------------------------------ how the regenerated code is run *)
(* a fresh instance: the class attribute INTERNAL_VERSION as written in the source *)
Definition self0 : val := VObj [("INTERNAL_VERSION", VInt g_INTERNAL_VERSION)].
(* MachineModel(path_to_yaml=<pa>, lazy=lz) in a process whose runtime cache is rt *)
Definition g_load (E : genv) (y : path -> content) (fs : loc -> option bytes) (rt : list (pypath * val)) (pid : nat)
           (pa : path) (lz : bool) : ores * gst :=
  exec E (g__init__ self0 VNone (VPath (pp_of_path pa)) VNone (VBool lz)) (mkGst y fs rt pid).
Definition g_load_crash (E : genv) (kc : nat) (y : path -> content) (fs : loc -> option bytes) (rt : list (pypath * val))
           (pid : nat) (pa : path) : gres * gst :=
  exec_crash E kc (g__init__ self0 VNone (VPath (pp_of_path pa)) VNone (VBool false)) (mkGst y fs rt pid).
Definition data_of (r : ores) : option val :=
  match r with ROk (VObj f) => assoc f "_data" | _ => None end.

(* the number of neutral blocks (conversion of the parsed YAML) a fresh parse runs through: read off the regenerated
   code by running it on an empty world *)
Definition E00 : genv := mkGenv 1 0 (fun _ => false) false false (fun _ => CValueError) (fun _ => None).
Definition nblocks : nat := Eval vm_compute in
  match data_of (fst (g_load E00 (fun _ => 0) (fun _ => None) [] 0 (mkPath 0 0) false)) with
  | Some (VData d) => d_code d
  | _ => 0
  end.

(* the setup of Model/Cache.v the regenerated code is compared with: the repaired protocol *)
Definition env_of (E : genv) : env := mkEnv (ge_dirw E) (ge_mkdirs E && ge_homew E).
Definition setup_of (E : genv) : setup :=
  mkSetup (ge_nch E) (mkCfg (S g_INTERNAL_VERSION) (nblocks + ge_code E)) AtomicRename (env_of E) false RtIgnored.
(* pickle.load may raise any subclass of Exception on a garbage file *)
Definition garbage_ok (E : genv) : Prop := forall b, subclass (ge_garbage E b) CException = true.

Definition comp_pp (pa : path) (h : content) : pypath :=
  mkPP (DData (p_dir pa)) [ALit "."; AStem (p_stem pa); ALit "_"; AHash h; ALit ".pickle"].
Definition home_pp (pa : path) (h : content) : pypath :=
  mkPP DCache [AStem (p_stem pa); ALit "_"; AHash h; ALit ".pickle"].

Definition probe_val (w : setup) (y : path -> content) (fs : loc -> option bytes) (pa : path) : val :=
  match probe1 w fs (Comp (p_dir pa) (p_stem pa) (y pa)) with
  | Some d => VData d
  | None => match probe1 w fs (Home (p_stem pa) (y pa)) with Some d => VData d | None => VBool false end
  end.

Arguments pickle_load : simpl never.
Arguments subclass : simpl never.
Ltac subcls := repeat match goal with
  | H : subclass ?a ?b = _ |- context [subclass ?a ?b] => rewrite H
  | |- context [subclass ?a ?b] =>
      let v := eval vm_compute in (subclass a b) in
      lazymatch v with true => change (subclass a b) with true | false => change (subclass a b) with false end
  end.
Ltac rw := repeat match goal with H : ?l = ?r |- context [?l] => lazymatch l with (_ _) => rewrite H end end.
Ltac crunch := repeat (progress (cbn; subcls; rw; rewrite ?updf_same, ?Nat.eqb_refl)).

Ltac home_part L :=
  match goal with |- context [?ff (Home ?st ?hh)] =>
    let b2 := fresh "b2" in let F2 := fresh "F2" in
    destruct (ff (Home st hh)) as [b2|] eqn:F2; crunch;
    [ let c2 := fresh "c2" in let L2 := fresh "L2" in let S2 := fresh "S2" in
      destruct (L b2) as [c2 [L2 S2]]; rewrite L2;
      let iv2 := fresh "iv2" in let D2 := fresh "D2" in
      destruct (decode _ b2) as [[[|iv2] ? ?]|] eqn:D2; crunch; try reflexivity;
      let V2 := fresh "V2" in destruct (Nat.eqb iv2 g_INTERNAL_VERSION) eqn:V2; crunch; reflexivity
    | reflexivity ]
  end.

(* ------------------------------------------------------------------ 1. _get_cached *)
(* the regenerated lookup = companion first, then home; a file that cannot be unpickled (whatever pickle.load raises),
   is not a dict of the current INTERNAL_VERSION, or does not exist is a miss; the world is not changed; nothing is raised *)
Theorem C17gen_get_cached_is_probe :
  forall E, garbage_ok E -> forall f y fs rt pid pa,
    assoc f "INTERNAL_VERSION" = Some (VInt g_INTERNAL_VERSION) ->
    exec E (py_call (g_get_cached (VObj f) (VPath (pp_of_path pa)))) (mkGst y fs rt pid) =
    (ROk (probe_val (setup_of E) y fs pa), mkGst y fs rt pid).
Proof.
  intros E Hg f y fs rt pid [dir stem] Hiv.
  unfold g_get_cached, probe_val, probe1. cbn [p_dir p_stem w_nch setup_of w_cfg c_iv].
  cbn. rewrite Hiv.
  set (h := y {| p_dir := dir; p_stem := stem |}).
  assert (L : forall b, exists c, pickle_load E b = match decode (ge_nch E) b with Some d => ROk (VData d) | None => RErr (EPy c) end
                                  /\ subclass c CException = true).
  { intros b. unfold pickle_load. destruct (decode (ge_nch E) b); [exists CEOFError; split; reflexivity|].
    destruct b as [|[d|] r]; [exists CEOFError; split; reflexivity | | exists (ge_garbage E (None :: r)); split; [reflexivity|apply Hg]].
    destruct (is_prefix_of d (Some d :: r) && (Nat.ltb (List.length (Some d :: r)) (ge_nch E)));
      [exists CUnpicklingError; split; reflexivity | exists (ge_garbage E (Some d :: r)); split; [reflexivity|apply Hg]]. }
  destruct (fs (Comp dir stem h)) as [b1|] eqn:F1; crunch.
  - destruct (L b1) as [c1 [L1 S1]]. rewrite L1.
    destruct (decode (ge_nch E) b1) as [[[|iv1] co1 sr1]|] eqn:D1; crunch.
    + home_part L.
    + destruct (Nat.eqb iv1 g_INTERNAL_VERSION) eqn:V1; crunch; [reflexivity|]. home_part L.
    + home_part L.
  - home_part L.
Qed.
Print Assumptions C17gen_get_cached_is_probe.

(* ------------------------------------------------------------------ 2. _write_cachefile *)
Definition probe_pp (pa : path) (hm : bool) (h : content) : pypath := if hm then home_pp pa h else comp_pp pa h.

(* the regenerated writer: the pickle goes into <final name>.<pid>.tmp in the same directory and is moved over the final
   name by os.replace; the final name never holds anything but its old content or the complete pickle *)
Theorem C17gen_write_cachefile_atomic :
  forall E f d y fs rt pid pa hm h,
    assoc f "_data" = Some (VData d) ->
    exists F, exec E (py_call (g_write_cachefile (VObj f) (VPath (probe_pp pa hm h)))) (mkGst y fs rt pid) =
              (ROk VNone, mkGst y F rt pid) /\
              forall l, F l = apply_fx (ge_nch E) pid fs (FxWrite (probe_loc pa hm h) d) l.
Proof.
  intros E f d y fs rt pid [dir stem] hm h Hd.
  destruct hm; unfold g_write_cachefile; crunch; eexists; (split; [reflexivity|]);
    intros l; unfold updf; cbn;
    destruct l as [d' s' h'|s' h'|p']; cbn; try reflexivity;
    destruct (pid =? p'); reflexivity.
Qed.
Print Assumptions C17gen_write_cachefile_atomic.
Arguments g_write_cachefile : simpl never.

(* ------------------------------------------------------------------ 3. _write_in_cache *)
Ltac use_write_cachefile pa hm :=
  rewrite exec_py_call, exec_bind;
  match goal with
  | Hd : assoc ?f "_data" = Some (VData ?d) |- context [exec ?E (py_call (g_write_cachefile (VObj ?f) (VPath ?pp))) (mkGst ?y ?fs ?rt ?pid)] =>
      let F := fresh "F" in let EQ := fresh "EQ" in let HF := fresh "HF" in
      match pp with
      | context [AHash ?h] =>
          destruct (C17gen_write_cachefile_atomic E f d y fs rt pid pa hm h Hd) as [F [EQ HF]];
          unfold probe_pp, comp_pp, home_pp in EQ; cbn [p_dir p_stem] in EQ; rewrite EQ
      end
  end.

(* the regenerated choice of the write target: the companion file when os.access says the model file's directory is
   writable, else the home cache when os.makedirs works and that directory is writable, else nothing; the file is keyed
   by the hash that was handed in *)
Theorem C17gen_write_in_cache_is_target :
  forall E f d y fs rt pid pa h,
    assoc f "_data" = Some (VData d) ->
    exists F, exec E (py_call (g_write_in_cache (VObj f) (VPath (pp_of_path pa)) (VStr [AHash h]))) (mkGst y fs rt pid) =
              (ROk VNone, mkGst y F rt pid) /\
              forall l, F l = apply_fx (ge_nch E) pid fs
                                (match target (env_of E) pa h with Some t => FxWrite t d | None => FxNone end) l.
Proof.
  intros E f d y fs rt pid [dir stem] h Hd.
  unfold g_write_in_cache, target. cbn [env_of e_dirw e_homew p_dir p_stem]. crunch.
  destruct (ge_dirw E dir) eqn:W1; crunch.
  - use_write_cachefile (mkPath dir stem) false. crunch. exists F. split; [reflexivity|exact HF].
  - destruct (ge_mkdirs E) eqn:W2; crunch.
    + destruct (ge_homew E) eqn:W3; crunch.
      * use_write_cachefile (mkPath dir stem) true. crunch. exists F. split; [reflexivity|exact HF].
      * exists fs. split; reflexivity.
    + exists fs. split; reflexivity.
Qed.
Print Assumptions C17gen_write_in_cache_is_target.
Arguments g_write_in_cache : simpl never.
Arguments g_get_cached : simpl never.

(* ------------------------------------------------------------------ 4. __init__: the whole load *)
Ltac use_get_cached Hg :=
  rewrite exec_bind;
  match goal with
  | |- context [exec ?E (py_call (g_get_cached (VObj ?f) (VPath (pp_of_path ?pa)))) (mkGst ?y ?fs ?rt ?pid)] =>
      rewrite (C17gen_get_cached_is_probe E Hg f y fs rt pid pa eq_refl)
  end.

Theorem C17gen_load_is_spec :
  forall E, garbage_ok E -> forall y fs rt pid pa,
    let w := setup_of E in
    let d := fst (load_spec w y fs pa) in
    exists f F, g_load E y fs rt pid pa false = (ROk (VObj f), mkGst y F ((pp_of_path pa, VData d) :: rt) pid) /\
                assoc f "_data" = Some (VData d) /\
                forall l, F l = apply_fx (ge_nch E) pid fs (snd (load_spec w y fs pa)) l.
Proof.
  intros E Hg y fs rt pid pa w d.
  assert (Hpa : pp_of_path pa = mkPP (DData (p_dir pa)) [AStem (p_stem pa); ALit ".yml"]) by reflexivity.
  unfold g_load, g__init__. crunch.
  (* the runtime cache: consulted, whatever it holds is overwritten below *)
  destruct (rt_get rt (pp_of_path pa)) as [v0|] eqn:R0; rewrite Hpa in R0; crunch; rewrite <- Hpa.
  all: use_get_cached Hg.
  all: subst d; unfold load_spec, probe_val; fold w.
  all: destruct (probe1 w fs (Comp (p_dir pa) (p_stem pa) (y pa))) as [d1|] eqn:P1.
  all: try (crunch; do 2 eexists; split; [reflexivity|]; split; reflexivity).
  all: destruct (probe1 w fs (Home (p_stem pa) (y pa))) as [d2|] eqn:P2.
  all: try (crunch; do 2 eexists; split; [reflexivity|]; split; reflexivity).
  all: destruct pa as [dir stem]; crunch.
  all: rewrite exec_bind.
  all: match goal with
       | |- context [exec ?EE (py_call (g_write_in_cache (VObj ?f) (VPath ?pp) (VStr [AHash ?h]))) (mkGst ?y ?fs ?rt ?pid)] =>
           let F := fresh "F" in let EQ := fresh "EQ" in let HF := fresh "HF" in
           destruct (C17gen_write_in_cache_is_target EE f (parse (w_cfg w) h) y fs rt pid (mkPath dir stem) h eq_refl) as [F [EQ HF]];
           unfold pp_of_path in EQ; cbn [p_dir p_stem] in EQ; rewrite EQ
       end.
  all: crunch.
  all: do 2 eexists; split; [|split].
  all: try (destruct (target (env_of E) _ _); reflexivity).
  all: intros l; rewrite HF; destruct (target (env_of E) _ _); reflexivity.
Qed.
Print Assumptions C17gen_load_is_spec.
