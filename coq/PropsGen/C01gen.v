(* Property C01, translation tie: the definitions REGENERATED on every run by tools/gen_c01.py from the current source of
     MachineModel.average_port_pressure, ArchSemantics.get_throughput_sum, ArchSemantics._to_list, ArchSemantics._itemsetter
   (Gen/PressureGen.v) are extensionally equal to the hand-written model of Model/Pressure.v
   (avg_pressure / avg_pressure_list, tp_sum, getmany, setmany) -- for EVERY numeric instance N : NumOps T and every input,
   error outcomes included -- and the theorems of Props/C01.v about the hand model are restated for the regenerated
   definitions.  This file is compiled by the check (harness/c01_gen.py), not by make. *)
From Coq Require Import ZArith QArith List Bool String Lia.
From OV Require Import Model.Num Model.Pressure Proofs.Feasible Proofs.PressureQ Gen.PressureGen.
Import ListNotations.

(* ------------------------------------------------------------------ the translator's prelude *)
Lemma bind_ok_id {A} (r : res A) : bind r (fun x => Ok x) = r.
Proof. destruct r; reflexivity. Qed.

Lemma py_repeat_single {A B} (z : A) (l : list B) : py_repeat [z] (py_len l) = map (fun _ => z) l.
Proof.
  unfold py_repeat, py_len. rewrite Nat2Z.id. induction l as [|x l IH]; [reflexivity|].
  cbn [List.length repeat List.concat map app]. f_equal. exact IH.
Qed.

Lemma py_index_from_spec ports p : forall k,
  py_index_from ports p k = match find_index (String.eqb p) ports k with Some i => Ok i | None => Err EValue end.
Proof.
  induction ports as [|q ports IH]; intros k; [reflexivity|].
  cbn [py_index_from find_index]. rewrite (String.eqb_sym q p). destruct (String.eqb p q); [reflexivity|apply IH].
Qed.

Lemma py_index_spec ports p :
  py_index ports p = match port_index ports p with Some i => Ok i | None => Err EValue end.
Proof. apply py_index_from_spec. Qed.

(* the only exception a list load / store raises is IndexError (so `except ValueError` never sees it) *)
Lemma nth_res_err {A} (l : list A) i e : nth_res l i = Err e -> e = EIndex.
Proof. unfold nth_res. destruct (nth_error l i); intros H; inversion H; reflexivity. Qed.
Lemma set_nth_err {A} : forall (l : list A) i v e, set_nth l i v = Err e -> e = EIndex.
Proof.
  induction l as [|x l IH]; intros i v e H; [destruct i; inversion H; reflexivity|].
  destruct i as [|i]; [discriminate|]. cbn [set_nth] in H. destruct (set_nth l i v) eqn:E; [discriminate|].
  cbn [bind] in H. inversion H; subst. eapply IH. exact E.
Qed.

(* zip( *rows ) = the hand model's `columns` *)
Section ZipStar.
  Context {A : Type} (z : A).
  Definition lmin (a : nat) (rs : list (list A)) : nat := fold_left (fun m x => Nat.min m (List.length x)) rs a.
  Definition cols (rows : list (list A)) (n : nat) : list (list A) := map (fun j => map (fun r => nth j r z) rows) (seq 0 n).

  Lemma lmin_0 rs : lmin 0 rs = 0%nat.
  Proof. unfold lmin. induction rs as [|r rs IH]; [reflexivity|]. cbn [fold_left]. exact IH. Qed.
  Lemma lmin_le : forall rs a, (lmin a rs <= a)%nat.
  Proof.
    unfold lmin. induction rs as [|r rs IH]; intros a; cbn [fold_left]; [lia|].
    specialize (IH (Nat.min a (List.length r))). lia.
  Qed.
  Lemma lmin_empty : forall rs a, In [] rs -> lmin a rs = 0%nat.
  Proof.
    unfold lmin. induction rs as [|r rs IH]; intros a H; [destruct H|]. cbn [fold_left]. destruct H as [H|H].
    - subst r. cbn [List.length]. rewrite Nat.min_0_r. apply lmin_0.
    - apply IH. exact H.
  Qed.
  Lemma lmin_S : forall rs a, Forall (fun r => r <> []) rs -> lmin (S a) rs = S (lmin a (map (@tl A) rs)).
  Proof.
    unfold lmin. induction rs as [|r rs IH]; intros a H; [reflexivity|].
    inversion H as [|r0 rs0 Hr Hrs]; subst. destruct r as [|x r]; [congruence|].
    cbn [fold_left map tl List.length]. rewrite <- Nat.succ_min_distr. apply IH. exact Hrs.
  Qed.

  Lemma py_heads_none : forall rows : list (list A), py_heads rows = None -> In [] rows.
  Proof.
    induction rows as [|r rows IH]; intros H; [discriminate|]. destruct r as [|x r]; [left; reflexivity|].
    cbn [py_heads] in H. destruct (py_heads rows); [discriminate|]. right. apply IH. reflexivity.
  Qed.
  Lemma py_heads_some : forall (rows : list (list A)) hs, py_heads rows = Some hs ->
    hs = map (fun r => nth 0 r z) rows /\ Forall (fun r => r <> []) rows.
  Proof.
    induction rows as [|r rows IH]; intros hs H.
    - inversion H. split; [reflexivity|constructor].
    - destruct r as [|x r]; [discriminate|]. cbn [py_heads] in H. destruct (py_heads rows) as [hs'|]; [|discriminate].
      inversion H; subst. destruct (IH hs' eq_refl) as (E & F). split.
      + cbn [map nth]. f_equal. exact E.
      + constructor; [discriminate|exact F].
  Qed.

  Lemma nth_S_tl (j : nat) (r : list A) : nth (S j) r z = nth j (tl r) z.
  Proof. destruct r; [destruct j; reflexivity|reflexivity]. Qed.

  Lemma cols_S rows n : cols rows (S n) = map (fun r => nth 0 r z) rows :: cols (map (@tl A) rows) n.
  Proof.
    unfold cols. cbn [seq map]. f_equal. rewrite <- seq_shift, map_map. apply map_ext. intros j.
    rewrite map_map. apply map_ext. intros r. apply nth_S_tl.
  Qed.

  Definition mlen (rows : list (list A)) : nat := match rows with [] => 0%nat | r :: rs => lmin (List.length r) rs end.

  Lemma py_zip_star_go_cols : forall n rows, rows <> [] -> py_zip_star_go n rows = cols rows (Nat.min n (mlen rows)).
  Proof.
    induction n as [|n IH]; intros rows NE; [reflexivity|].
    cbn [py_zip_star_go]. destruct (py_heads rows) as [hs|] eqn:H.
    - destruct (py_heads_some _ _ H) as (E & F). destruct rows as [|r rs]; [congruence|].
      inversion F as [|r0 rs0 Hr Hrs]; subst r0 rs0. destruct r as [|x r]; [congruence|].
      assert (M : mlen ((x :: r) :: rs) = S (mlen (map (@tl A) ((x :: r) :: rs)))).
      { cbn [mlen map tl List.length]. apply lmin_S. exact Hrs. }
      rewrite M, <- Nat.succ_min_distr, cols_S, <- E. f_equal. apply IH. discriminate.
    - apply py_heads_none in H. destruct rows as [|r rs]; [congruence|].
      assert (M : mlen (r :: rs) = 0%nat).
      { cbn [mlen]. destruct H as [H|H]; [subst r; apply lmin_0|apply lmin_empty; exact H]. }
      rewrite M, Nat.min_0_r. reflexivity.
  Qed.

  Lemma py_zip_star_cols rows : py_zip_star rows = cols rows (mlen rows).
  Proof.
    destruct rows as [|r rs]; [reflexivity|]. unfold py_zip_star. rewrite py_zip_star_go_cols by discriminate.
    f_equal. cbn [mlen]. pose proof (lmin_le rs (List.length r)). lia.
  Qed.
End ZipStar.

Section Equal.
  Context {T : Type} (N : NumOps T).

  Lemma py_zip_star_columns (rows : list (list T)) : py_zip_star rows = columns N rows.
  Proof. rewrite (py_zip_star_cols (zero N)). destruct rows; reflexivity. Qed.

  (* ---------------------------------------------------------------- average_port_pressure *)
  (* one pass of `for p in ports:` for ANY loop body G that does, per port, what the hand model does *)
  Lemma inner_loop ports share (G : string -> list T -> res (list T)) :
    (forall p acc, G p acc = match port_index ports p with
                             | None => Err EKey
                             | Some i => x <- nth_res acc i ;; set_nth acc i (nadd N x share)
                             end) ->
    forall ps acc, bind (py_for ps acc G) (fun a => Ok a) = avg_add_ports N ports acc share ps.
  Proof.
    intros HG. induction ps as [|p ps IH]; intros acc; [reflexivity|].
    cbn [py_for avg_add_ports]. rewrite HG. destruct (port_index ports p) as [i|]; [|reflexivity].
    destruct (nth_res acc i) as [x|e]; [|reflexivity]. cbn [bind].
    destruct (set_nth acc i (nadd N x share)) as [acc'|e]; [|reflexivity]. cbn [bind]. apply IH.
  Qed.

  (* `for cycles, ports in used_pp:` for ANY body F that does, per micro-op, what the hand model does *)
  Lemma outer_loop ports (F : uop (T:=T) -> list T -> res (list T)) :
    (forall c ps acc, F (c, ps) acc = avg_add_ports N ports acc (ndiv N c (nofZ N (Z.of_nat (List.length ps)))) ps) ->
    forall us acc, bind (py_for us acc F) (fun a => Ok a) = avg_go N ports acc us.
  Proof.
    intros HF. induction us as [|[c ps] us IH]; intros acc; [reflexivity|].
    cbn [py_for avg_go]. rewrite HF.
    destruct (avg_add_ports N ports acc (ndiv N c (nofZ N (Z.of_nat (List.length ps)))) ps) as [acc'|e]; [|reflexivity].
    cbn [bind]. apply IH.
  Qed.

  (* the translated try/except around the translated `average_pressure[port_list.index(p)] += share` *)
  Ltac crush :=
    repeat first
      [ reflexivity
      | progress cbn [bind py_catch err_eqb]
      | match goal with |- context [port_index ?a ?b] => destruct (port_index a b) end
      | match goal with |- context [nth_res ?a ?b] =>
          let E := fresh "E" in destruct (nth_res a b) eqn:E; [|apply nth_res_err in E; subst] end
      | match goal with |- context [set_nth ?a ?b ?c] =>
          let E := fresh "E" in destruct (set_nth a b c) eqn:E; [|apply set_nth_err in E; subst] end ].

  Lemma g_avg_list ports us k : g_average_port_pressure N ports (UList us) k = avg_pressure_list N ports us.
  Proof.
    unfold g_average_port_pressure, avg_pressure_list. cbv zeta. cbn [bind].
    rewrite py_repeat_single. apply outer_loop. intros c ps acc.
    apply inner_loop. intros p acc'. rewrite py_index_spec. unfold py_len. crush.
  Qed.

  Lemma g_avg_dict ports alts k :
    g_average_port_pressure N ports (UDict alts) k =
    (a <- py_dict_get alts k ;; avg_pressure_list N ports a).
  Proof.
    rewrite <- (bind_ok_id (py_dict_get alts k)) at 1.
    unfold g_average_port_pressure. cbv zeta. destruct (py_dict_get alts k) as [a|e]; [|reflexivity].
    cbn [bind]. exact (g_avg_list ports a k).
  Qed.

  Theorem g_average_port_pressure_eq ports u : g_average_port_pressure N ports u 0 = avg_pressure N ports u.
  Proof.
    destruct u as [l|alts]; [apply g_avg_list|]. rewrite g_avg_dict. destruct alts as [|a alts]; reflexivity.
  Qed.

  (* ---------------------------------------------------------------- get_throughput_sum *)
  Theorem g_get_throughput_sum_eq k : g_get_throughput_sum N k = Ok (tp_sum N k).
  Proof. unfold g_get_throughput_sum, tp_sum. cbv zeta. rewrite py_zip_star_columns. reflexivity. Qed.

  (* ---------------------------------------------------------------- _to_list o itemgetter, _itemsetter *)
  (* operator.itemgetter( *idx )(l): no index -> TypeError, one -> the element, several -> a tuple *)
  Definition py_itemgetter (l : list T) (idx : list nat) : res (pyitems T) :=
    match idx with
    | [] => Err EEmptyGetter
    | [i] => x <- nth_res l i ;; Ok (POne x)
    | _ => xs <- getmany_go l idx ;; Ok (PTuple xs)
    end.

  Theorem g_to_list_itemgetter_eq l idx : (o <- py_itemgetter l idx ;; g_to_list o) = getmany l idx.
  Proof.
    destruct idx as [|i [|j r]]; [reflexivity| |].
    - cbn [py_itemgetter getmany getmany_go]. destruct (nth_res l i); reflexivity.
    - unfold py_itemgetter, getmany. destruct (getmany_go l (i :: j :: r)); reflexivity.
  Qed.

  Lemma setzip_loop (F : nat * T -> list T -> res (list T)) :
    (forall i v l, F (i, v) l = set_nth l i v) ->
    forall idx vals l, bind (py_for (py_zip idx vals) l F) (fun a => Ok a) = setzip l idx vals.
  Proof.
    intros HF. induction idx as [|i idx IH]; intros vals l; [reflexivity|].
    destruct vals as [|v vals]; [reflexivity|]. cbn [py_zip combine py_for setzip]. rewrite HF.
    destruct (set_nth l i v) as [l'|e]; [|reflexivity]. cbn [bind]. apply IH.
  Qed.

  Theorem g_itemsetter_eq idx (l vals : list T) : g_itemsetter idx l vals = setmany l idx vals.
  Proof.
    unfold g_itemsetter. cbv zeta. destruct idx as [|i [|j r]].
    - cbn. reflexivity.
    - cbn. destruct vals as [|v [|w vals]]; try reflexivity. apply bind_ok_id.
    - assert (E : (py_len (i :: j :: r) =? 1)%Z = false).
      { apply Z.eqb_neq. unfold py_len. cbn [List.length]. lia. }
      rewrite E. unfold setmany. apply setzip_loop. intros a v l0. apply bind_ok_id.
  Qed.
End Equal.

(* ------------------------------------------------------------------ property theorems *)
(* (T1) the regenerated average_port_pressure IS the hand model's, for every numeric instance and every input
        (port list, list or dict form of the micro-ops), error outcomes included *)
Theorem C01gen_average_port_pressure_is_model : forall (T : Type) (N : NumOps T) ports u,
  g_average_port_pressure N ports u 0 = avg_pressure N ports u.
Proof. intros. apply g_average_port_pressure_eq. Qed.
Print Assumptions C01gen_average_port_pressure_is_model.

(* (T1') any `option`: the list form ignores it; the dict form selects alternative `option` (KeyError when absent) *)
Theorem C01gen_average_port_pressure_option : forall (T : Type) (N : NumOps T) ports k,
  (forall us, g_average_port_pressure N ports (UList us) k = avg_pressure_list N ports us) /\
  (forall alts, g_average_port_pressure N ports (UDict alts) k =
                if (k <? 0)%Z then Err EKey
                else match nth_error alts (Z.to_nat k) with
                     | Some a => avg_pressure_list N ports a
                     | None => Err EKey
                     end).
Proof.
  intros T N ports k. split; [intros; apply g_avg_list|].
  intros alts. rewrite g_avg_dict. unfold py_dict_get. destruct (k <? 0)%Z; [reflexivity|].
  destruct (nth_error alts (Z.to_nat k)); reflexivity.
Qed.
Print Assumptions C01gen_average_port_pressure_option.

(* (T2) the regenerated get_throughput_sum IS the hand model's tp_sum and never raises *)
Theorem C01gen_get_throughput_sum_is_model : forall (T : Type) (N : NumOps T) k,
  g_get_throughput_sum N k = Ok (tp_sum N k).
Proof. intros. apply g_get_throughput_sum_eq. Qed.
Print Assumptions C01gen_get_throughput_sum_is_model.

(* (T3) _to_list(itemgetter( *idx )(l)) and _itemsetter( *idx )(l, *vals) are the hand model's getmany / setmany *)
Theorem C01gen_to_list_is_model : forall (T : Type) (l : list T) idx,
  (o <- py_itemgetter l idx ;; g_to_list o) = getmany l idx.
Proof. intros. apply g_to_list_itemgetter_eq. Qed.
Print Assumptions C01gen_to_list_is_model.

Theorem C01gen_itemsetter_is_model : forall (T : Type) idx (l vals : list T),
  g_itemsetter idx l vals = setmany l idx vals.
Proof. intros. apply g_itemsetter_eq. Qed.
Print Assumptions C01gen_itemsetter_is_model.

(* (C1) Props/C01.v (1) for the REGENERATED function: uniform scheduling computes a feasible split, slack 0 *)
Theorem C01gen_uniform_feasible : forall ports us v,
  g_average_port_pressure QNum ports (UList us) 0 = Ok v ->
  (forall u, In u us -> wf_names ports u) ->
  Feasible (List.length ports) 0 (map (toU ports) us) (qnth v).
Proof. intros ports us v H. rewrite g_avg_list in H. exact (uniform_model_feasible ports us v H). Qed.
Print Assumptions C01gen_uniform_feasible.

(* ... and for the dict form: the split is feasible for the alternative the code selects (the first) *)
Theorem C01gen_uniform_feasible_dict : forall ports alts v,
  g_average_port_pressure QNum ports (UDict alts) 0 = Ok v ->
  exists us rest, alts = us :: rest /\
    ((forall u, In u us -> wf_names ports u) -> Feasible (List.length ports) 0 (map (toU ports) us) (qnth v)).
Proof.
  intros ports alts v H. rewrite g_average_port_pressure_eq in H. destruct alts as [|us rest]; [discriminate|].
  exists us, rest. split; [reflexivity|]. intros WF. exact (uniform_model_feasible ports us v H WF).
Qed.
Print Assumptions C01gen_uniform_feasible_dict.

(* (C2) Props/C01.v (4) for the REGENERATED function: lines whose throughput is 0 are shown but not summed *)
Theorem C01gen_totals_ignore_zero_throughput : forall (T : Type) (N : NumOps T) k1 i k2,
  neqb N (i_tp i) (n0 N) = true -> g_get_throughput_sum N (k1 ++ i :: k2) = g_get_throughput_sum N (k1 ++ k2).
Proof.
  intros T N k1 i k2 H. rewrite !g_get_throughput_sum_eq. f_equal.
  unfold tp_sum. rewrite !filter_app. cbn [filter]. unfold counted at 2. unfold zero. rewrite H. reflexivity.
Qed.
Print Assumptions C01gen_totals_ignore_zero_throughput.

(* (C3) ... and the totals are the rounded column sums of the counted lines *)
Theorem C01gen_totals_are_rounded_column_sums : forall (T : Type) (N : NumOps T) k,
  g_get_throughput_sum N k =
  Ok (map (fun col => nround2 N (nsum N col))
          (columns N (map i_pp (filter (fun i => negb (neqb N (i_tp i) (n0 N))) k)))).
Proof. intros. rewrite g_get_throughput_sum_eq. reflexivity. Qed.
Print Assumptions C01gen_totals_are_rounded_column_sums.

(* non-vacuity: the regenerated functions evaluate on concrete inputs (exact rationals): a 3-port model, two
   micro-ops; a port that is not in the list raises KeyError; a two-line kernel with one zero-throughput line *)
Example C01gen_nonvacuous :
  g_average_port_pressure QNum ["0"; "1"; "2"]%string (UList [(1, ["0"; "1"]%string); (1 # 2, ["1"; "2"]%string)]) 0
    = Ok [1 # 2; 3 # 4; 1 # 4] /\
  (forall u, In u [(1, ["0"; "1"]%string); (1 # 2, ["1"; "2"]%string)] -> wf_names ["0"; "1"; "2"]%string u) /\
  g_average_port_pressure QNum ["0"; "1"]%string (UList [(1, ["0"; "7"]%string)]) 0 = Err EKey /\
  g_average_port_pressure QNum ["0"; "1"]%string (UDict []) 0 = Err EKey /\
  g_get_throughput_sum QNum [mkinstr 1 [1 # 2; 1 # 3] (UList []); mkinstr 0 [5; 5] (UList []); mkinstr 1 [1 # 4; 1 # 3] (UList [])]
    = Ok [3 # 4; 67 # 100].
Proof.
  split; [vm_compute; reflexivity|]. split.
  - intros u [H|[H|[]]]; subst; unfold wf_names; cbn [fst snd]; repeat split; try discriminate;
      try (vm_compute; discriminate); vm_compute; repeat constructor; simpl; intuition discriminate.
  - repeat split; vm_compute; reflexivity.
Qed.
