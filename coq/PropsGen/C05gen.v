(* Property C05 (and the LCD post-processing shared with C14 / C16), translation tie: the definitions REGENERATED on every run
   by tools/gen_lcd.py from the current source of KernelDG.check_for_loopcarried_dep / _paths_to_next_iteration / _extend_path /
   _get_node_by_lineno (Gen/KdgNode.v, Gen/KdgLcd.v) are extensionally equal -- for EVERY numeric instance, every input, error
   outcomes included -- to the functional reading Model/LcdPost.v, which Proofs/LcdPost.v connects with the hand model
   (Model/Deps.v: lcd_offset, doubled, entry_of, sort_pairs, dedup, lcd_entries).  The theorems of Props/C05.v are then
   restated for the regenerated code.  Compiled by the check (harness/lcd_gen.py), not by make. *)
From Coq Require Import ZArith List Bool String Lia.
From OV Require Import Model.Num Model.PyLcd Model.LcdPost Proofs.PyLcdFacts Gen.KdgNode Gen.KdgLcd.
Import ListNotations.
Local Open Scope list_scope.

Section Equal.
  Context {T : Type} (N : NumOps T) {I : Type} (get : I -> Z) (set : I -> Z -> I).

  (* ---------------------------------------------------------------- _get_node_by_lineno *)
  Lemma g_get_node_by_lineno_eq heap z : g_get_node_by_lineno get heap z = node_by_lineno get heap z.
  Proof.
    unfold g_get_node_by_lineno, node_by_lineno. cbv zeta.
    rewrite (py_filterM_deref (fun i => Z.eqb (get i) z) heap). cbn [pbind].
    destruct (py_filter_idx (fun i => Z.eqb (get i) z) heap); reflexivity.
  Qed.

  (* ---------------------------------------------------------------- offset and the doubled kernel *)
  Lemma g_lcd_prepare_eq k : g_lcd_prepare get set k = prepare_model get set k.
  Proof.
    unfold g_lcd_prepare, prepare_model. cbv zeta.
    change (map (fun v_i => get v_i) k) with (map get k).
    destruct (map get k) as [|x r]; [reflexivity|]. cbn [py_max_list_Z pbind app].
    rewrite (py_for_append _ (fun i => set i (get i + Z.max 1000 (fold_left Z.max r x + 1))%Z)) by (intros; reflexivity).
    reflexivity.
  Qed.

  (* ---------------------------------------------------------------- the searches *)
  Lemma g_lcd_search_seq_eq {G} (p2n : G -> Z -> Z -> pres (list (list Z))) k dg off all_paths :
    g_lcd_search_seq get p2n k dg off all_paths = search_seq_model get p2n k dg off all_paths.
  Proof.
    unfold g_lcd_search_seq, search_seq_model. cbv zeta.
    rewrite (py_mapM_ext _ (fun i => p2n dg (get i) off)) by (intros; apply pbind_ok_id).
    destruct (py_mapM (fun i => p2n dg (get i) off) k) as [found|e]; [|reflexivity]. cbn [pbind].
    rewrite (py_for_append _ (fun p => p)) by (intros; reflexivity). rewrite map_id. reflexivity.
  Qed.

  Lemma g_extend_path_eq {G} (asp : G -> Z -> Z -> list (list Z)) dst k dg off :
    g_extend_path get asp dst k dg off = POk (extend_model get asp dst k dg off).
  Proof.
    unfold g_extend_path, extend_model. cbv zeta.
    rewrite (py_for_extend _ (fun i => asp dg (get i) (get i + off)%Z)) by (intros; reflexivity). reflexivity.
  Qed.

  (* ---------------------------------------------------------------- the post-processing *)
  Lemma g_lcd_post_eq {G} (lat : G -> Z -> Z -> pres T) heap dg off all_paths deps0 :
    g_lcd_post N get lat heap dg off all_paths deps0 = post_model N get (lat dg) heap off all_paths deps0.
  Proof.
    unfold g_lcd_post, post_model, dedup_model, dict_of. cbv zeta. rewrite pbind_assoc. apply pbind_ext.
    - apply py_for_ext. intros path [[d seen] deps]. unfold step_path. cbn [fst snd]. apply pbind_ext.
      + apply py_for_ext. intros [s d2] [d0 lp]. unfold step_edge. cbn [fst snd py_bound pbind].
        destruct (lat dg s d2) as [w|e]; [|reflexivity]. cbn [pbind]. unfold zback.
        destruct (Z.leb off s); reflexivity.
      + intros [d1 lp]. cbn [fst snd]. destruct d1 as [d1|]; [|reflexivity]. cbn [py_bound pbind].
        rewrite (py_for_fold _ (fun a (il : Z * T) => nadd N a (snd il))) by (intros [? ?] ?; reflexivity).
        unfold zback. destruct (Z.leb off d1); cbn [pbind]; (destruct (py_set_mem _ _ _); reflexivity).
    - intros [[d seen] deps]. cbn [pbind snd]. rewrite <- (pbind_ok_id (py_for _ _ (step_item get heap))). apply pbind_ext; [|reflexivity].
      apply py_for_ext. intros [ls il] d0. unfold step_item, item_value. cbn [fst snd]. rewrite pbind_assoc. apply pbind_ext; [reflexivity|].
      intros first. rewrite pbind_assoc. apply pbind_ext; [apply g_get_node_by_lineno_eq|]. intros root.
      rewrite pbind_assoc. apply pbind_ext; [|reflexivity].
      apply py_mapM_ext. intros [ln w]. rewrite g_get_node_by_lineno_eq. reflexivity.
  Qed.
End Equal.

Lemma g_paths_to_next_iteration_eq {G NS} (ns_mem : Z -> NS -> bool) (ns_add : Z -> NS -> NS) (anc : G -> Z -> NS) (sub : G -> NS -> G)
      (asp : G -> Z -> Z -> list (list Z)) dg ln off :
  g_paths_to_next_iteration ns_mem ns_add anc sub asp dg ln off = POk (p2n_model ns_mem ns_add anc sub asp dg ln off).
Proof. unfold g_paths_to_next_iteration, p2n_model. cbv zeta. destruct (ns_mem ln (anc dg (ln + off)%Z)); reflexivity. Qed.

(* ================================================================== property theorems *)
From Coq Require Import QArith.
From OV Require Import Model.Deps Proofs.LCD Proofs.Rotation Proofs.RotationGlue Proofs.StreamCycles Proofs.LcdPost Proofs.LcdPostStream.
Local Open Scope nat_scope.

(* ---- (T) the regenerated definitions ARE the functional reading Model/LcdPost.v: every numeric instance, every input, errors included *)
Theorem C05gen_get_node_by_lineno_is_model : forall (I : Type) (get : I -> Z) heap z,
  g_get_node_by_lineno get heap z = node_by_lineno get heap z.
Proof. intros. apply g_get_node_by_lineno_eq. Qed.
Print Assumptions C05gen_get_node_by_lineno_is_model.

Theorem C05gen_prepare_is_model : forall (I : Type) (get : I -> Z) (set : I -> Z -> I) k,
  g_lcd_prepare get set k = prepare_model get set k.
Proof. intros. apply g_lcd_prepare_eq. Qed.
Print Assumptions C05gen_prepare_is_model.

Theorem C05gen_post_is_model : forall (T : Type) (N : NumOps T) (I : Type) (get : I -> Z) (G : Type) (lat : G -> Z -> Z -> pres T)
    heap dg off all_paths deps0,
  g_lcd_post N get lat heap dg off all_paths deps0 = post_model N get (lat dg) heap off all_paths deps0.
Proof. intros. apply g_lcd_post_eq. Qed.
Print Assumptions C05gen_post_is_model.

Theorem C05gen_search_seq_is_model : forall (I : Type) (get : I -> Z) (G : Type) (p2n : G -> Z -> Z -> pres (list (list Z))) k dg off all_paths,
  g_lcd_search_seq get p2n k dg off all_paths = search_seq_model get p2n k dg off all_paths.
Proof. intros. apply g_lcd_search_seq_eq. Qed.
Print Assumptions C05gen_search_seq_is_model.

Theorem C05gen_paths_to_next_iteration_is_model : forall (G NS : Type) (ns_mem : Z -> NS -> bool) (ns_add : Z -> NS -> NS) anc sub asp (dg : G) ln off,
  g_paths_to_next_iteration ns_mem ns_add anc sub asp dg ln off = POk (p2n_model ns_mem ns_add anc sub asp dg ln off).
Proof. intros. apply g_paths_to_next_iteration_eq. Qed.
Print Assumptions C05gen_paths_to_next_iteration_is_model.

Theorem C05gen_extend_path_is_model : forall (I : Type) (get : I -> Z) (G : Type) (asp : G -> Z -> Z -> list (list Z)) dst k dg off,
  g_extend_path get asp dst k dg off = POk (extend_model get asp dst k dg off).
Proof. intros. apply g_extend_path_eq. Qed.
Print Assumptions C05gen_extend_path_is_model.

(* ---- (H) ... and the functional reading is the hand model of Model/Deps.v *)
(* offset = lcd_offset, the kernel handed to create_DG = doubled (ValueError on an empty kernel: max([])) *)
Theorem C05gen_offset_and_doubled_kernel : forall (T : Type) (k : list (line (T:=T))),
  g_lcd_prepare zget zset k = match k with [] => PErr PValueError | _ => POk (Z.of_nat (lcd_offset k), doubled k) end.
Proof. intros. rewrite g_lcd_prepare_eq. apply prepare_is_model. Qed.
Print Assumptions C05gen_offset_and_doubled_kernel.

(* on paths given as the model writes them (sources with weights; every path has an edge; the look-up answers these weights), the loop
   over all_paths computes Deps.dedup of their entries entry_of (lat_sum, sorted lat_path), first occurrence kept *)
Theorem C05gen_dedup_is_model : forall (T : Type) (N : NumOps T) (I : Type) (get : I -> Z) (G : Type) (lat : G -> Z -> Z -> pres T)
    heap dg off (ps : list (list (nat * T) * nat)),
  sort_law N -> (forall p t, In (p, t) ps -> p <> [] /\ lat_along (lat dg) p t) ->
  g_lcd_post N get lat heap dg (Z.of_nat off) (all_nodes ps) [] =
  dict_of get heap (py_sort_rev (lt_item N) (map (inj_entry (T:=T)) (dedup N [] (entries_of N off ps)))).
Proof.
  intros T N I get G lat heap dg off ps L H. rewrite g_lcd_post_eq. unfold post_model.
  pose proof (dedup_model_is_dedup N L (lat dg) off ps H) as E.
  transitivity (pbind (POk (map (inj_entry (T:=T)) (dedup N [] (entries_of N off ps))))
                      (fun deps => dict_of get heap (py_sort_rev (lt_item N) deps))); [|reflexivity].
  apply pbind_ext; [exact E | reflexivity].
Qed.
Print Assumptions C05gen_dedup_is_model.

(* with the paths the model's search enumerates in the doubled kernel: the dictionary of lcd_entries *)
Theorem C05gen_post_on_model_paths : forall (T : Type) (N : NumOps T) dep fwd pidx fd (I : Type) (get : I -> Z) (G : Type)
    (lat : G -> Z -> Z -> pres T) heap dg (K : list (line (T:=T))),
  sort_law N -> lat_agrees (create_dg N dep fwd pidx fd (doubled K)) (lat dg) ->
  g_lcd_post N get lat heap dg (Z.of_nat (lcd_offset K)) (all_nodes (model_paths N dep fwd pidx fd K)) [] =
  lcd_dict N dep fwd pidx fd get heap K.
Proof. intros. rewrite g_lcd_post_eq. apply post_model_is_lcd_entries; assumption. Qed.
Print Assumptions C05gen_post_on_model_paths.

(* ---- (C) Props/C05.v for the REGENERATED code: with canonical line numbers (renumber k), the dictionary the translated
   post-processing returns on the cross-iteration paths of the doubled kernel consists of cross-iteration cycles of the periodic
   instruction stream ... *)
Theorem C05gen_reported_entries_are_stream_cycles : forall (T : Type) (N : NumOps T) dep fwd pidx fd (I : Type) (get : I -> Z) (G : Type)
    (lat : G -> Z -> Z -> pres T) heap dg (k : list (line (T:=T))) d key root deps latency,
  sort_law N -> lat_agrees (create_dg N dep fwd pidx fd (doubled (renumber k))) (lat dg) ->
  g_lcd_post N get lat heap dg (Z.of_nat (lcd_offset (renumber k))) (all_nodes (model_paths N dep fwd pidx fd (renumber k))) [] = POk d ->
  In (key, (root, deps, latency)) d ->
  exists i q, i < List.length k /\ spath T (stream_E N dep fwd pidx fd (body N k)) i (i + List.length k) q /\
    latency = sum_sorted N (cycle_members N k q) /\
    key = lcd_key (cycle_members N k q) /\
    Forall2 (fun ll rw => node_by_lineno get heap (fst ll) = POk (fst rw) /\ snd rw = snd ll) (cycle_members N k q) deps /\
    exists first rest, cycle_members N k q = first :: rest /\ node_by_lineno get heap (fst first) = POk root.
Proof.
  intros T N dep fwd pidx fd I get G lat heap dg k d key root deps latency L A H Hin.
  rewrite (C05gen_post_on_model_paths T N dep fwd pidx fd I get G lat heap dg (renumber k) L A) in H.
  exact (dict_entries_are_stream_cycles N dep fwd pidx fd get heap k d key root deps latency H Hin).
Qed.
Print Assumptions C05gen_reported_entries_are_stream_cycles.

(* ... and every such cycle has an entry, under the key made of its sorted lines (two cycles through the same lines with different
   latencies share one key: the dictionary keeps the later = smaller one, as C05gen_one_entry_per_key says there is one per key) *)
Theorem C05gen_stream_cycles_are_reported : forall (T : Type) (N : NumOps T) dep fwd pidx fd (I : Type) (get : I -> Z) (G : Type)
    (lat : G -> Z -> Z -> pres T) heap dg (k : list (line (T:=T))) d i q,
  sort_law N -> (forall a, neqb N a a = true) -> lat_agrees (create_dg N dep fwd pidx fd (doubled (renumber k))) (lat dg) ->
  g_lcd_post N get lat heap dg (Z.of_nat (lcd_offset (renumber k))) (all_nodes (model_paths N dep fwd pidx fd (renumber k))) [] = POk d ->
  i < List.length k -> spath T (stream_E N dep fwd pidx fd (body N k)) i (i + List.length k) q ->
  exists v, In (lcd_key (cycle_members N k q), v) d.
Proof.
  intros T N dep fwd pidx fd I get G lat heap dg k d i q L R A H Hi Hq.
  rewrite (C05gen_post_on_model_paths T N dep fwd pidx fd I get G lat heap dg (renumber k) L A) in H.
  exact (stream_cycles_have_dict_entries N dep fwd pidx fd get heap k d i q R H Hi Hq).
Qed.
Print Assumptions C05gen_stream_cycles_are_reported.

Theorem C05gen_one_entry_per_key : forall (T : Type) (N : NumOps T) (I : Type) (get : I -> Z) (G : Type) (lat : G -> Z -> Z -> pres T)
    heap dg off all_paths d,
  g_lcd_post N get lat heap dg off all_paths [] = POk d -> NoDup (map fst d).
Proof.
  intros T N I get G lat heap dg off all_paths d H. rewrite g_lcd_post_eq in H. unfold post_model in H.
  match type of H with pbind ?X _ = _ => destruct X as [deps|] end; [|discriminate]. cbn [pbind] in H.
  exact (proj1 (dict_of_spec get heap _ d H)).
Qed.
Print Assumptions C05gen_one_entry_per_key.

(* ---- (F) EVERY numeric instance (binary64 included), any delivered paths in any order: the latency of a reported entry is
   0.0 + lat_1 + ... + lat_n, added left to right over its OWN dependencies list [(node_1, lat_1), ..., (node_n, lat_n)] (the code
   sums lat_path after lat_path.sort()).  So two runs -- sequential, or parallel with any worker count and schedule -- that report
   an entry with the same dependencies report the same latency bit for bit; before the repair the sum ran in path order and the
   rotation of a cycle that happened to be delivered first decided the last bit (Props/C16float.v: 0.1, 0.3, 0.7) *)
From OV Require Import Proofs.LcdFloat.
Theorem C05gen_latency_is_sum_of_dependencies : forall (T : Type) (N : NumOps T) (I : Type) (get : I -> Z) (G : Type)
    (lat : G -> Z -> Z -> pres T) heap dg off all_paths d key root deps latency,
  g_lcd_post N get lat heap dg off all_paths [] = POk d -> In (key, (root, deps, latency)) d ->
  latency = fold_left (fun a rw => nadd N a (snd rw)) deps (n0 N).
Proof.
  intros T N I get G lat heap dg off all_paths d key root deps latency H Hin. rewrite g_lcd_post_eq in H.
  exact (post_model_latency_is_sum_of_dependencies N get heap (lat dg) off all_paths d key root deps latency H Hin).
Qed.
Print Assumptions C05gen_latency_is_sum_of_dependencies.

Corollary C05gen_same_dependencies_same_latency : forall (T : Type) (N : NumOps T) (I : Type) (get : I -> Z) (G : Type)
    (lat : G -> Z -> Z -> pres T) heap dg off all_paths all_paths' d d' key key' root root' deps latency latency',
  g_lcd_post N get lat heap dg off all_paths [] = POk d -> g_lcd_post N get lat heap dg off all_paths' [] = POk d' ->
  In (key, (root, deps, latency)) d -> In (key', (root', deps, latency')) d' -> latency = latency'.
Proof.
  intros T N I get G lat heap dg off all_paths all_paths' d d' key key' root root' deps latency latency' H H' Hin Hin'.
  rewrite (C05gen_latency_is_sum_of_dependencies T N I get G lat heap dg off all_paths d key root deps latency H Hin).
  rewrite (C05gen_latency_is_sum_of_dependencies T N I get G lat heap dg off all_paths' d' key' root' deps latency' H' Hin').
  reflexivity.
Qed.
Print Assumptions C05gen_same_dependencies_same_latency.

(* _get_node_by_lineno returns the FIRST object of self.kernel with the line number, IndexError when there is none *)
Theorem C05gen_get_node_by_lineno_spec : forall (I : Type) (get : I -> Z) heap z,
  match g_get_node_by_lineno get heap z with
  | POk k => exists i, nth_error heap k = Some i /\ get i = z /\ forall j i', j < k -> nth_error heap j = Some i' -> get i' <> z
  | PErr e => e = PIndexError /\ forall i, In i heap -> get i <> z
  end.
Proof. intros. rewrite g_get_node_by_lineno_eq. apply node_by_lineno_spec. Qed.
Print Assumptions C05gen_get_node_by_lineno_spec.

(* the two searches deliver the same paths: the sequential one instruction by instruction, a worker its section *)
Theorem C05gen_extend_path_appends_per_instruction : forall (I : Type) (get : I -> Z) (G : Type) (asp : G -> Z -> Z -> list (list Z)) dst k dg off,
  g_extend_path get asp dst k dg off = POk (dst ++ flat_map (fun i => asp dg (get i) (get i + off)%Z) k).
Proof. intros. apply g_extend_path_eq. Qed.
Print Assumptions C05gen_extend_path_appends_per_instruction.

(* ---------------------------------------------------------------- non-vacuity: RotationGlue.ex_kernel (a <- f(c); b <- f(a); c <- f(b),
   latencies 1, 2, 3), exact rationals, dg.edges[...] read off the model graph, self.kernel = the renumbered kernel *)
Definition ex_K := renumber ex_kernel.
Definition ex_dep (a b : regop) : bool := String.eqb (r_name a) (r_name b).
Definition ex_lat (_ : unit) := graph_lat (create_dg QNum ex_dep 0%Q 0%Q true (doubled ex_K)).
Example C05gen_nonvacuous :
  g_lcd_prepare (zget (T:=Q)) (zset (T:=Q)) ex_K = POk (1000%Z, doubled ex_K) /\
  all_nodes (model_paths QNum ex_dep 0%Q 0%Q true ex_K) = [[1; 2; 3; 1001]; [2; 3; 1001; 1002]; [3; 1001; 1002; 1003]]%Z /\
  g_lcd_post QNum (zget (T:=Q)) ex_lat ex_K tt 1000%Z (all_nodes (model_paths QNum ex_dep 0%Q 0%Q true ex_K)) []
    = POk [("1-2-3"%string, (0, [(0, 1%Q); (1, 2%Q); (2, 3%Q)], 6%Q))] /\
  sort_law QNum /\ lat_agrees (create_dg QNum ex_dep 0%Q 0%Q true (doubled ex_K)) (ex_lat tt) /\
  (* a path without an edge: UnboundLocalError; a line that is not in self.kernel: IndexError *)
  g_lcd_post QNum (zget (T:=Q)) ex_lat ex_K tt 1000%Z [[1%Z]] [] = PErr PUnboundLocalError /\
  g_lcd_post QNum (zget (T:=Q)) ex_lat [] tt 1000%Z [[1; 2; 3; 1001]%Z] [] = PErr PIndexError.
Proof.
  split; [vm_compute; reflexivity|]. split; [vm_compute; reflexivity|]. split; [vm_compute; reflexivity|].
  split; [exact sort_law_Q|]. split; [apply graph_lat_agrees|]. split; vm_compute; reflexivity.
Qed.

(* ---- (P) C16 for the REGENERATED post-processing (Proofs/LcdPostZ.v; integer latencies = the setting of Model/Parallel.v): it computes
   Model/Parallel's dedup + sort_desc (lat_path, lat_sum, first-kept de-duplication, sort(reverse=True)) and then the dictionary of the code *)
From Coq Require Import Permutation.
From OV Require Import Model.Parallel Proofs.Parallel Proofs.LcdPostZ.

Theorem C05gen_post_is_parallel_model : forall (I : Type) (get : I -> Z) (G : Type) (lat : G -> Z -> Z -> pres Z) heap dg off
    (ps : list (Parallel.path * Z)),
  (forall p t, In (p, t) ps -> p <> [] /\ zlat_along (lat dg) p t) ->
  g_lcd_post ZNum get lat heap dg off (zall_nodes ps) [] = dict_of get heap (sort_desc (Parallel.dedup off [] (map fst ps))).
Proof. intros. rewrite g_lcd_post_eq. apply post_model_is_parallel. assumption. Qed.
Print Assumptions C05gen_post_is_parallel_model.

(* ... so the returned dictionary does not depend on the order in which the paths were found / delivered *)
Theorem C05gen_post_order_independent : forall (I : Type) (get : I -> Z) (G : Type) (lat : G -> Z -> Z -> pres Z) heap dg off
    (ps ps' : list (Parallel.path * Z)),
  (forall p t, In (p, t) ps -> p <> [] /\ zlat_along (lat dg) p t) -> Permutation ps ps' ->
  g_lcd_post ZNum get lat heap dg off (zall_nodes ps) [] = g_lcd_post ZNum get lat heap dg off (zall_nodes ps') [].
Proof. intros. rewrite !g_lcd_post_eq. apply post_model_perm_invariant; assumption. Qed.
Print Assumptions C05gen_post_order_independent.

(* ... in particular under every interleaving of the blocks the workers append (one block per instruction, g_extend_path) *)
Theorem C05gen_post_any_interleaving : forall (I : Type) (get : I -> Z) (G : Type) (lat : G -> Z -> Z -> pres Z) heap dg off
    (workers : list (list (list (Parallel.path * Z)))) (arrived : list (list (Parallel.path * Z))),
  (forall p t, In (p, t) (List.concat arrived) -> p <> [] /\ zlat_along (lat dg) p t) ->
  Interleave workers arrived ->
  g_lcd_post ZNum get lat heap dg off (zall_nodes (List.concat arrived)) [] =
  g_lcd_post ZNum get lat heap dg off (zall_nodes (List.concat (List.concat workers))) [].
Proof. intros. rewrite !g_lcd_post_eq. apply post_model_any_interleaving; assumption. Qed.
Print Assumptions C05gen_post_any_interleaving.
