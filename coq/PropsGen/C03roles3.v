(* Property C03 -- translation tie (T) for the role assignment of osaca/semantics/isa_semantics.py, third part: the whole of
   `assign_src_dst` of the REGENERATED code (Gen/RolesGen.v, rewritten by tools/gen_roles.py on every run) is
   `assign_roles o select_entry` (Model/Roles.v, Model/RolesSel.v):
     (5) `_has_load` / `_has_store`  = "a memory operand among source+src_dst / destination+src_dst",
     (3) the look-up cascade (direct look-up, GAS-suffix / AArch64 shape-cc fall-back with the SAME operand list, then -- only for an
         instruction with a memory operand and only after the direct look-ups failed -- the look-ups with every memory operand replaced
         by the register wildcard, again with the suffix fall-backs ON THE SUBSTITUTED LIST) = `select_entry`,
     (4) the AArch64 write-back post-processing loops with object identity,
     (6) the composition and the restatements of Props/C03.v for the regenerated code.
   Compiled by the check (not by make). *)
From Coq Require Import ZArith QArith List Bool String Lia.
From OV Require Import Model.Num Model.PyString Model.PyLcd Model.Deps Model.Roles Model.RolesDyn Model.RolesSel Proofs.DgSpec Proofs.Roles Gen.RolesGen.
From OV Require Import PropsGen.C03roles PropsGen.C03roles2.
Import ListNotations. Open Scope string_scope. Open Scope list_scope.

(* select_entry with the memory-operand test as a boolean (Model/RolesSel.select_entry is the instance `has_mem (map fst ops)`) *)
Definition select_entry_b {E} (x86 : bool) (look_direct look_reg : string -> option E) (m : string) (mem : bool) : option (option E) :=
  match lookup_fb x86 look_direct m with
  | None => None
  | Some (Some e) => Some (Some e)
  | Some None => if mem then lookup_fb x86 look_reg m else Some None
  end.
Lemma select_entry_is_b {E} x86 (ld lr : string -> option E) m (ops : list popnd) :
  select_entry x86 ld lr m ops = select_entry_b x86 ld lr m (existsb (fun p => match fst p with OMem _ => true | _ => false end) ops).
Proof. reflexivity. Qed.

Section Facts.
  Context {T : Type}.
  Notation pv := (pv T).

  Definition is_memv (x : pv) : bool := py_isinstance x C_MemoryOperand.

  (* ---- attribute stores by identity ---- *)
  Lemma setattr_list k a v (l : list pv) : py_setattr_id k a v (VList l) = VList (map (py_setattr_id k a v) l).
  Proof. reflexivity. Qed.
  Lemma setattr_dict k a v (d : list (string * pv)) :
    py_setattr_id k a v (VDict d) = VDict (map (fun kw => (fst kw, py_setattr_id k a v (snd kw))) d).
  Proof. cbn [py_setattr_id]. f_equal. induction d as [|[s x] d IH]; [reflexivity|]. cbn [map fst snd]. rewrite <- IH. reflexivity. Qed.
  Lemma setattr_obj k a v c (fs : list (attr * pv)) :
    py_setattr_id k a v (VObj c fs) =
    let fs' := map (fun bw => (fst bw, py_setattr_id k a v (snd bw))) fs in
    match attr_assoc fs A_oid with
    | Some (VInt j) => if Z.eqb k j then VObj c (attr_set fs' a v) else VObj c fs'
    | _ => VObj c fs'
    end.
  Proof.
    assert (E : forall l : list (attr * pv),
               (fix go (fs : list (attr * pv)) : list (attr * pv) :=
                  match fs with [] => [] | (b, w) :: r => (b, py_setattr_id k a v w) :: go r end) l
               = map (fun bw => (fst bw, py_setattr_id k a v (snd bw))) l).
    { induction l as [|[b w] l IH]; [reflexivity|]. cbn [map fst snd]. rewrite <- IH. reflexivity. }
    cbn [py_setattr_id]. rewrite E. reflexivity.
  Qed.

  (* x contains no object with identity k *)
  Definition inert (k : Z) (x : pv) : Prop := forall a v, py_setattr_id k a v x = x.
  Lemma inert_list k (l : list pv) : Forall (inert k) l -> inert k (VList l).
  Proof.
    intros H a v. rewrite setattr_list. f_equal. induction H as [|x l Hx H IH]; [reflexivity|]. cbn [map]. rewrite Hx, IH. reflexivity.
  Qed.
  Lemma inert_list_inv k (l : list pv) : inert k (VList l) -> Forall (inert k) l.
  Proof.
    intros H. apply Forall_forall. intros x Hx a v. specialize (H a v). rewrite setattr_list in H. injection H as H.
    induction l as [|y l IH]; [destruct Hx|]. cbn [map] in H. injection H as H1 H2. destruct Hx as [->|Hx]; [exact H1 | exact (IH H2 Hx)].
  Qed.
  Lemma inert_opdict k (s d sd : list pv) : Forall (inert k) s -> Forall (inert k) d -> Forall (inert k) sd -> inert k (emb_opdict s d sd).
  Proof.
    intros Hs Hd Hsd a v. unfold emb_opdict. rewrite setattr_dict. cbn [map fst snd].
    rewrite (inert_list k s Hs), (inert_list k d Hd), (inert_list k sd Hsd). reflexivity.
  Qed.
  Lemma Forall_sub {A} (P : A -> Prop) (l l' : list A) : incl l' l -> Forall P l -> Forall P l'.
  Proof. intros I H. apply Forall_forall. intros x Hx. rewrite Forall_forall in H. apply H, I, Hx. Qed.

  (* ---- sub-lists ---- *)
  Lemma by_role_g_incl {A} (xs : list A) roles want : incl (by_role_g xs roles want) xs.
  Proof.
    intros x H. unfold by_role_g in H. apply in_map_iff in H. destruct H as [[y r] [E H]]. cbn in E. subst y.
    apply filter_In in H. destruct H as [H _]. eapply in_combine_l, H.
  Qed.
  Lemma removelast_incl {A} (l : list A) : incl (removelast l) l.
  Proof. induction l as [|x [|y r] IH]; intros z H; [destruct H..|]. cbn [removelast] in H. destruct H as [->|H]; [left; reflexivity | right; apply IH, H]. Qed.
  Lemma tl_incl {A} (l : list A) : incl (tl l) l.
  Proof. destruct l; intros z H; [destruct H | right; exact H]. Qed.
  Lemma firstn_incl' {A} n (l : list A) : incl (firstn n l) l.
  Proof.
    revert l. induction n as [|n IH]; intros l z H; [destruct H|]. destruct l as [|x l]; [destruct H|].
    destruct H as [->|H]; [left; reflexivity | right; apply (IH l), H].
  Qed.
  Lemma skipn_incl' {A} n (l : list A) : incl (skipn n l) l.
  Proof. revert l. induction n as [|n IH]; intros l z H; [exact H|]. destruct l as [|x l]; [destruct H|]. right. apply (IH l), H. Qed.
  Lemma default_src_incl {A} x86 (xs : list A) : incl (default_src_g x86 xs) xs.
  Proof. unfold default_src_g. destruct xs as [|a [|b l]]; [destruct x86; intros z []|intros z H; exact H|]. destruct x86; [apply removelast_incl | apply tl_incl]. Qed.
  Lemma default_dst_incl {A} x86 (xs : list A) : incl (default_dst_g x86 xs) xs.
  Proof. unfold default_dst_g. destruct xs as [|a [|b l]]; [destruct x86; intros z []|intros z []|]. destruct x86; [apply skipn_incl' | apply firstn_incl']. Qed.

  (* ---- strings ---- *)
  Lemma substr_find (sub s : string) (i : nat) : py_substr sub s = match str_find sub s i with Some _ => true | None => false end.
  Proof.
    revert i. induction s as [|c s IH]; intros i; cbn [py_substr str_find]; destruct (py_startswith _ sub); try reflexivity. apply IH.
  Qed.
  Lemma getitem_last (m : string) :
    py_getitem (VStr m : pv) (VInt (-1)) = match str_last m with Some c => DOk (VStr c) | None => DErr EIndex end.
  Proof.
    unfold str_last. cbn [py_getitem as_int]. destruct (norm_index (String.length m) (-1)) as [n|]; [|reflexivity].
    destruct (nth_error (chars m) n); reflexivity.
  Qed.
  Lemma slice_drop_last (m : string) : py_slice (VStr m : pv) VNone (VInt (-1)) = DOk (VStr (str_drop_last m)).
  Proof. reflexivity. Qed.
  Lemma find_bound sub s i j : str_find sub s i = Some j -> (j <= i + String.length s)%nat.
  Proof.
    revert i. induction s as [|c s IH]; intros i; cbn [str_find String.length]; destruct (py_startswith _ sub); intros H; try (inversion H; lia).
    apply IH in H. lia.
  Qed.
  Lemma index_slice_dot (m : string) : py_substr "." m = true ->
    exists i, py_str_index (VStr m : pv) (VStr ".") = DOk i /\ py_slice (VStr m : pv) VNone i = DOk (VStr (str_before_dot m)).
  Proof.
    intros H. rewrite (substr_find "." m 0) in H. unfold str_before_dot. cbn [py_str_index].
    destruct (str_find "." m 0) as [i|] eqn:E; [|discriminate]. exists (VInt (Z.of_nat i)). split; [reflexivity|]. cbn [dbind py_slice norm_bound].
    replace (Z.of_nat i <? 0)%Z with false by (symmetry; apply Z.ltb_ge; lia). reflexivity.
  Qed.

  (* ---- (5) _has_load / _has_store ---- *)
  Lemma mem_loop {S} (body : pv -> list pv -> unit -> dres (ctl (list pv * unit) pv)) :
    (forall x r, body x r tt = DOk (if is_memv x then CRet (VBool true) else CNext (r, tt))) ->
    forall l, (l_ <~ py_loop l tt body ;;
               match l_ with inl _ => DOk (FExit (VBool false)) | inr r_ => DOk (FExit r_) end : dres (flow S pv))
              = DOk (FExit (VBool (existsb is_memv l))).
  Proof.
    intros H. unfold py_loop. induction l as [|x l IH]; [reflexivity|]. cbn [List.length py_loop_n existsb]. rewrite H.
    destruct (is_memv x); cbn [dbind orb]; [reflexivity | exact IH].
  Qed.
End Facts.

Section Mem.
  Context {T : Type} (N : NumOps T).
  Notation pv := (pv T).

  (* (5) for every object whose attribute semantic_operands is a role dict *)
  Theorem C03gen_has_load_is_model : forall (iform : pv) (s d sd : list pv),
    py_getattr iform A_semantic_operands = DOk (emb_opdict s d sd) ->
    g_has_load iform = DOk (VBool (existsb is_memv (s ++ sd))).
  Proof.
    intros iform s d sd H. unfold g_has_load. rewrite !H. cbn [dbind]. rewrite od_s, od_sd. cbn [dbind py_chain py_iter].
    rewrite mem_loop; [reflexivity|]. intros x r. unfold is_memv. destruct (py_isinstance x C_MemoryOperand); reflexivity.
  Qed.
  Theorem C03gen_has_store_is_model : forall (iform : pv) (s d sd : list pv),
    py_getattr iform A_semantic_operands = DOk (emb_opdict s d sd) ->
    g_has_store iform = DOk (VBool (existsb is_memv (d ++ sd))).
  Proof.
    intros iform s d sd H. unfold g_has_store. rewrite !H. cbn [dbind]. rewrite od_d, od_sd. cbn [dbind py_chain py_iter].
    rewrite mem_loop; [reflexivity|]. intros x r. unfold is_memv. destruct (py_isinstance x C_MemoryOperand); reflexivity.
  Qed.
End Mem.
Print Assumptions C03gen_has_load_is_model.
Print Assumptions C03gen_has_store_is_model.

Lemma apply_found_g_sub {A} roles (hs : list A) hr idiom alleq xs :
  let R := apply_found_g roles hs hr idiom alleq xs in
  incl (fst (fst R)) (xs ++ hs) /\ incl (snd (fst R)) (xs ++ hs) /\ incl (snd R) (xs ++ hs).
Proof.
  unfold apply_found_g. destruct (andb idiom alleq); cbn [fst snd].
  - repeat split; intros z H; [destruct H | exact H | destruct H].
  - repeat split; intros z H; apply in_app_or in H; apply in_or_app; destruct H as [H|H]; [left|right|left|right|left|right]; eapply by_role_g_incl, H.
Qed.

(* ---------------------------------------------------------------- the whole of assign_src_dst *)
Section Compose.
  Context {T : Type} (N : NumOps T).
  Notation pv := (pv T).
  Variable p_get_instruction : pv -> pv -> dres pv.

  (* an ISA entry as the regenerated code reads it: roles of the operands, hidden operands (values) with their roles, idiom flag *)
  Record pentry := mkPE { pe_roles : list (bool * bool); pe_hs : list pv; pe_hr : list (bool * bool); pe_idiom : bool }.
  Definition emb_pe (e : pentry) : pv := emb_entry (pe_roles e) (pe_hs e) (pe_idiom e).
  Definition emb_ope (o : option pentry) : pv := match o with Some e => emb_pe e | None => VNone end.
  (* substitute_mem_address *)
  Definition wild (x : pv) : pv := if is_memv x then VDict [("*", VStr "*")] else x.
  (* an instruction form (a kernel line) with identity k *)
  Definition mk_iform (k : Z) (xs : list pv) (m : string) (sem : pv) (fl : list pv) : pv :=
    VObj C_InstructionForm [(A_oid, VInt k); (A_operands, VList xs); (A_mnemonic, VStr m); (A_semantic_operands, sem); (A_flags, VList fl)].
  Definition roles_g (x86 : bool) (oe : option pentry) (alleq : bool) (xs : list pv) : list pv * list pv * list pv :=
    match oe with
    | Some e => apply_found_g (pe_roles e) (pe_hs e) (pe_hr e) (pe_idiom e) alleq xs
    | None => default_roles_g x86 xs
    end.
  Definition flags_of (R : list pv * list pv * list pv) : list pv :=
    (if existsb is_memv (fst (fst R) ++ snd R) then [VStr "performs_load"] else []) ++
    (if existsb is_memv (snd (fst R) ++ snd R) then [VStr "performs_store"] else []).
  (* a memory operand without address write-back *)
  Definition no_wb (x : pv) : Prop :=
    is_memv x = true -> py_getattr x A_post_indexed = DOk (VBool false) /\ py_getattr x A_pre_indexed = DOk (VBool false).

  Lemma substitute_is_wild (xs : list pv) : g_substitute_mem_address (VList xs) = DOk (VList (map wild xs)).
  Proof.
    unfold g_substitute_mem_address. cbn [py_iter dbind].
    assert (E : forall f, (forall v, f v = DOk (Some (wild v))) -> py_comp xs f = DOk (map wild xs)).
    { intros f Hf. induction xs as [|x l IH]; [reflexivity|]. cbn [py_comp map]. rewrite Hf, IH. reflexivity. }
    rewrite E; [reflexivity|]. intros v. unfold wild, is_memv, g_create_reg_wildcard. destruct (py_isinstance v C_MemoryOperand); reflexivity.
  Qed.
  Lemma comp_ismem (xs : list pv) :
    py_comp xs (fun v_op => DOk (Some (VBool (py_isinstance v_op C_MemoryOperand)))) = DOk (map (fun x => VBool (is_memv x)) xs).
  Proof. induction xs as [|x l IH]; [reflexivity|]. cbn [py_comp map]. rewrite IH. reflexivity. Qed.
  Lemma any_ismem (xs : list pv) : py_any (VList (map (fun x : pv => VBool (is_memv x)) xs) : pv) = DOk (existsb is_memv xs).
  Proof.
    cbn [dbind py_any py_iter]. induction xs as [|x l IH]; [reflexivity|]. cbn [map existsb py_truth dbind].
    destruct (is_memv x); [reflexivity | exact IH].
  Qed.
  Lemma comp_filter_mem (l : list pv) :
    py_comp l (fun v_op => if py_isinstance v_op C_MemoryOperand then DOk (Some v_op) else DOk None)
    = DOk (filter is_memv l).
  Proof.
    induction l as [|x l IH]; [reflexivity|]. cbn [py_comp filter]. rewrite IH. unfold is_memv. destruct (py_isinstance x C_MemoryOperand); reflexivity.
  Qed.
  Lemma loop_id {S R} (body : pv -> list pv -> S -> dres (ctl (list pv * S) R)) (l : list pv) (s : S) :
    (forall x r, In x l -> body x r s = DOk (CNext (r, s))) -> py_loop l s body = DOk (inl s).
  Proof.
    unfold py_loop. induction l as [|x l IH]; intros H; [reflexivity|]. cbn [List.length py_loop_n].
    rewrite H by (left; reflexivity). cbn [dbind]. apply IH. intros y r Hy. apply H. right. exact Hy.
  Qed.

  Lemma ga_ops k xs m sem fl : py_getattr (mk_iform k xs m sem fl) A_operands = DOk (VList xs). Proof. reflexivity. Qed.
  Lemma ga_mn k xs m sem fl : py_getattr (mk_iform k xs m sem fl) A_mnemonic = DOk (VStr m). Proof. reflexivity. Qed.
  Lemma ga_sem k xs m sem fl : py_getattr (mk_iform k xs m sem fl) A_semantic_operands = DOk sem. Proof. reflexivity. Qed.
  Lemma ga_fl k xs m sem fl : py_getattr (mk_iform k xs m sem fl) A_flags = DOk (VList fl). Proof. reflexivity. Qed.
  Lemma oid_iform k xs m sem fl : py_oid (mk_iform k xs m sem fl) = DOk k. Proof. reflexivity. Qed.
  Lemma set_sem k xs m sem fl v : inert k (VList xs) -> inert k sem -> inert k (VList fl) ->
    py_setattr_id k A_semantic_operands v (mk_iform k xs m sem fl) = mk_iform k xs m v fl.
  Proof.
    intros Hx Hs Hf. unfold mk_iform. rewrite setattr_obj. cbn [map fst snd attr_assoc attr_eqb attr_code Nat.eqb]. rewrite Z.eqb_refl.
    rewrite Hx, Hs, Hf. reflexivity.
  Qed.
  Lemma set_fl k xs m sem fl fl' : inert k (VList xs) -> inert k sem -> inert k (VList fl) ->
    py_setattr_id k A_flags (VList fl') (mk_iform k xs m sem fl) = mk_iform k xs m sem fl'.
  Proof.
    intros Hx Hs Hf. unfold mk_iform. rewrite setattr_obj. cbn [map fst snd attr_assoc attr_eqb attr_code Nat.eqb]. rewrite Z.eqb_refl.
    rewrite Hx, Hs, Hf. reflexivity.
  Qed.

  Lemma none_pe e : py_is_none (emb_pe e) = false. Proof. reflexivity. Qed.
  Lemma truth_pe e : py_truth (emb_pe e) = DOk true. Proof. reflexivity. Qed.

  Section Main.
    Variables (x86 : bool) (k0 : Z) (xs : list pv) (m : string) (sem0 : pv) (fl : list pv) (alleq : bool).
    Variables look_direct look_reg : string -> option pentry.
    (* get_instruction (property C07) answers the direct look-ups with look_direct, the look-ups on the substituted operand list
       with look_reg (two different argument lists when there is a memory operand) *)
    Hypothesis Hd : forall m', p_get_instruction (VStr m') (VList xs) = DOk (emb_ope (look_direct m')).
    Hypothesis Hr : existsb is_memv xs = true -> forall m', p_get_instruction (VStr m') (VList (map wild xs)) = DOk (emb_ope (look_reg m')).
    Hypothesis Hent : forall m' e, look_direct m' = Some e \/ look_reg m' = Some e ->
                                   (List.length (pe_roles e) <= List.length xs)%nat /\ Forall2 hid_ok (pe_hs e) (pe_hr e) /\
                                   Forall (inert k0) (pe_hs e) /\ (x86 = false -> Forall no_wb (pe_hs e)).
    Hypothesis Heq : py_eq (VList (tl xs)) (VList (removelast xs)) = DOk alleq.
    Hypothesis Hix : Forall (inert k0) xs.
    Hypothesis His : inert k0 sem0.
    Hypothesis Hif : inert k0 (VList fl).
    Hypothesis Hwb : x86 = false -> Forall no_wb xs.

    Theorem C03gen_assign_src_dst_is_model :
      g_assign_src_dst N (isa_str x86) p_get_instruction (mk_iform k0 xs m sem0 fl) =
      match select_entry_b x86 look_direct look_reg m (existsb is_memv xs) with
      | None => DErr EIndex
      | Some oe => let R := roles_g x86 oe alleq xs in DOk (VNone, mk_iform k0 xs m (emb3 R) (fl ++ flags_of R))
      end.
    Proof.
      unfold g_assign_src_dst. rewrite !ga_ops, !ga_mn. cbn [dbind py_is_none fbind]. rewrite !ga_ops, !ga_mn. cbn [dbind py_iter].
      rewrite comp_ismem. cbn [dbind]. rewrite any_ismem. cbn [dbind].
      match goal with |- context [fbind _ ?k] =>
        lazymatch k with context [g_apply_found_ISA_data] => fail | context [g_get_regular_source_operands] => set (K := k) end end.
      assert (HT : forall s d sd, Forall (inert k0) s -> Forall (inert k0) d -> Forall (inert k0) sd ->
                     (x86 = false -> Forall no_wb s /\ Forall no_wb d /\ Forall no_wb sd) ->
                     K (emb_opdict s d sd, VBool false) = DOk (FNorm (mk_iform k0 xs m (emb_opdict s d sd) (fl ++ flags_of (s, d, sd))))).
      { intros s d sd Is Id Isd Hnw. subst K. cbv beta iota. cbn [py_truth dbind fbind].
        assert (Hxs : inert k0 (VList xs)) by (apply inert_list, Hix).
        assert (Hod : inert k0 (emb_opdict s d sd)) by (apply inert_opdict; assumption).
        match goal with |- context [fbind _ ?k] => lazymatch k with context [g_has_load] => set (F := k) end end.
        assert (HF : F (mk_iform k0 xs m sem0 fl, emb_opdict s d sd)
                     = DOk (FNorm (mk_iform k0 xs m (emb_opdict s d sd) (fl ++ flags_of (s, d, sd))))).
        { subst F. cbv beta iota. rewrite oid_iform. cbn [dbind]. rewrite set_sem by assumption.
          rewrite (C03gen_has_load_is_model _ s d sd) by apply ga_sem. cbn [dbind py_truth].
          unfold flags_of. cbn [fst snd].
          destruct (existsb is_memv (s ++ sd)); cbn [fbind dbind].
          - rewrite ga_fl. cbn [dbind py_iadd py_extend py_iter]. rewrite oid_iform. cbn [dbind]. rewrite set_fl by assumption. cbn [fbind dbind].
            rewrite (C03gen_has_store_is_model _ s d sd) by apply ga_sem. cbn [dbind py_truth].
            destruct (existsb is_memv (d ++ sd)); cbn [fbind dbind].
            + rewrite ga_fl. cbn [dbind py_iadd py_extend py_iter]. rewrite oid_iform. cbn [dbind]. rewrite set_fl.
              * rewrite <- app_assoc. reflexivity.
              * assumption.
              * assumption.
              * apply inert_list. apply Forall_app. split; [apply inert_list_inv, Hif | repeat constructor; intros a v; reflexivity].
            + rewrite app_nil_r. reflexivity.
          - rewrite (C03gen_has_store_is_model _ s d sd) by apply ga_sem. cbn [dbind py_truth].
            destruct (existsb is_memv (d ++ sd)); cbn [fbind dbind].
            + rewrite ga_fl. cbn [dbind py_iadd py_extend py_iter]. rewrite oid_iform. cbn [dbind]. rewrite set_fl by assumption. reflexivity.
            + rewrite app_nil_r. reflexivity. }
        clearbody F.
        destruct x86; cbn [isa_str py_eq String.eqb Ascii.eqb Bool.eqb dbind fbind]; [exact HF|].
        destruct (Hnw eq_refl) as (Ns & Nd & Nsd).
        rewrite od_s. cbn [dbind py_iter]. rewrite comp_filter_mem. cbn [dbind py_iter]. rewrite loop_id.
        2:{ intros x r Hx. apply filter_In in Hx. destruct Hx as [Hx Hm]. rewrite Forall_forall in Ns. destruct (Ns x Hx Hm) as [Hp Hq].
            rewrite Hp, Hq. reflexivity. }
        cbn [dbind]. rewrite od_d, od_sd. cbn [dbind py_add py_iter]. rewrite comp_filter_mem. cbn [dbind py_iter]. rewrite loop_id.
        2:{ intros x r Hx. apply filter_In in Hx. destruct Hx as [Hx Hm].
            assert (Nx : no_wb x). { apply in_app_or in Hx. destruct Hx as [Hx|Hx]; [rewrite Forall_forall in Nd; apply Nd, Hx | rewrite Forall_forall in Nsd; apply Nsd, Hx]. }
            destruct (Nx Hm) as [Hp Hq]. rewrite Hp, Hq. reflexivity. }
        cbn [dbind fbind]. exact HF. }
      assert (HD : K (VDict [], VBool true) = K (emb_opdict (default_src_g x86 xs) (default_dst_g x86 xs) [], VBool false)).
      { subst K. cbv beta iota. cbn [py_truth dbind fbind].
        rewrite (C03gen_default_sources_is_model x86 _ xs (ga_ops _ _ _ _ _)), (C03gen_default_destinations_is_model x86 _ xs (ga_ops _ _ _ _ _)).
        cbn [dbind py_setitem str_set String.eqb Ascii.eqb Bool.eqb]. reflexivity. }
      assert (HK : forall oe, match oe with Some e => exists m', look_direct m' = Some e \/ look_reg m' = Some e | None => True end ->
                   K (match oe with Some e => emb3 (apply_found_g (pe_roles e) (pe_hs e) (pe_hr e) (pe_idiom e) alleq xs) | None => VDict [] end,
                      VBool (match oe with Some _ => false | None => true end))
                   = DOk (FNorm (mk_iform k0 xs m (emb3 (roles_g x86 oe alleq xs)) (fl ++ flags_of (roles_g x86 oe alleq xs))))).
      { intros [e|] Hoe.
        - destruct Hoe as [m' Hm']. destruct (Hent m' e Hm') as (_ & _ & Ih & Nh).
          cbn [roles_g]. pose proof (apply_found_g_sub (pe_roles e) (pe_hs e) (pe_hr e) (pe_idiom e) alleq xs) as Hsub.
          destruct (apply_found_g (pe_roles e) (pe_hs e) (pe_hr e) (pe_idiom e) alleq xs) as [[s d] sd]. cbn [fst snd] in Hsub.
          destruct Hsub as (S1 & S2 & S3). unfold emb3. cbn [fst snd].
          assert (Iall : Forall (inert k0) (xs ++ pe_hs e)) by (apply Forall_app; split; assumption).
          apply HT; try (eapply Forall_sub; eassumption).
          intros Hx. assert (Nall : Forall no_wb (xs ++ pe_hs e)) by (apply Forall_app; split; [apply Hwb, Hx | apply Nh, Hx]).
          repeat split; eapply Forall_sub; eassumption.
        - rewrite HD. cbn [roles_g]. unfold default_roles_g, emb3. cbn [fst snd].
          apply HT; [eapply Forall_sub; [apply default_src_incl | exact Hix] | eapply Forall_sub; [apply default_dst_incl | exact Hix] | constructor |].
          intros Hx. repeat split; [eapply Forall_sub; [apply default_src_incl | exact (Hwb Hx)] | eapply Forall_sub; [apply default_dst_incl | exact (Hwb Hx)] | constructor]. }
      clearbody K. clear HT HD.
      unfold select_entry_b, lookup_fb, gas_suffixes.
      (* a look-up answered with an entry: _apply_found_ISA_data, then the tail *)
      Ltac found N Hent HK Heq e m' side :=
        let L := fresh "L" in let Hh := fresh "Hh" in
        destruct (Hent m' e side) as (L & Hh & _ & _);
        cbn [emb_ope]; repeat (progress (rewrite ?none_pe; cbn [py_is_none dbind fbind])); rewrite truth_pe; cbn [dbind];
        unfold emb_pe; rewrite (C03gen_apply_found_is_model N _ _ _ _ _ _ L Heq Hh); cbn [dbind fbind];
        rewrite (HK (Some e)) by (exists m'; exact side); cbn [dbind]; reflexivity.
      Ltac simp := cbn [emb_ope py_is_none isa_str py_eq String.eqb Ascii.eqb Bool.eqb dbind fbind py_in py_truth].
      destruct x86.
      - (* x86: GAS suffix *)
        rewrite Hd. destruct (look_direct m) as [e|] eqn:E1; [found N Hent HK Heq e m (@or_introl _ (look_reg m = Some e) E1)|].
        simp. rewrite getitem_last. destruct (str_last m) as [c|] eqn:EL; [|reflexivity]. simp.
        match goal with |- dbind (fbind _ ?k) ?fin = _ => set (KD := k); set (FIN := fin) end.
        assert (HSome : forall e m', look_direct m' = Some e ->
                  dbind (KD (emb_pe e)) FIN = DOk (VNone, mk_iform k0 xs m (emb3 (roles_g true (Some e) alleq xs)) (fl ++ flags_of (roles_g true (Some e) alleq xs)))).
        { intros e m' E. subst KD FIN. cbv beta. found N Hent HK Heq e m' (@or_introl _ (look_reg m' = Some e) E). }
        assert (HNone : dbind (KD VNone) FIN =
                  match (if existsb is_memv xs
                         then match look_reg m with Some e => Some (Some e) | None => Some (if py_substr c "bswlqt" then look_reg (str_drop_last m) else None) end
                         else Some None) with
                  | Some oe => DOk (VNone, mk_iform k0 xs m (emb3 (roles_g true oe alleq xs)) (fl ++ flags_of (roles_g true oe alleq xs)))
                  | None => DErr EIndex
                  end).
        { subst KD FIN. cbv beta. simp. destruct (existsb is_memv xs) eqn:EM.
          2:{ simp. rewrite (HK None I). reflexivity. }
          rewrite substitute_is_wild. simp. rewrite (Hr eq_refl).
          destruct (look_reg m) as [e|] eqn:E3; [found N Hent HK Heq e m (@or_intror (look_direct m = Some e) _ E3)|].
          simp. destruct (py_substr c "bswlqt") eqn:ES; simp.
          - rewrite slice_drop_last. simp. rewrite (Hr eq_refl).
            destruct (look_reg (str_drop_last m)) as [e|] eqn:E4; [found N Hent HK Heq e (str_drop_last m) (@or_intror (look_direct (str_drop_last m) = Some e) _ E4)|].
            simp. rewrite (HK None I). reflexivity.
          - rewrite (HK None I). reflexivity. }
        clearbody KD FIN.
        destruct (py_substr c "bswlqt") eqn:ES; simp.
        + rewrite slice_drop_last. simp. rewrite Hd. destruct (look_direct (str_drop_last m)) as [e|] eqn:E2; simp.
          * apply (HSome e _ E2).
          * exact HNone.
        + exact HNone.
      - (* AArch64: shape / condition-code suffix *)
        rewrite Hd. destruct (look_direct m) as [e|] eqn:E1; [found N Hent HK Heq e m (@or_introl _ (look_reg m = Some e) E1)|].
        simp.
        match goal with |- dbind (fbind _ ?k) ?fin = _ => set (KD := k); set (FIN := fin) end.
        assert (HSome : forall e m', look_direct m' = Some e ->
                  dbind (KD (emb_pe e)) FIN = DOk (VNone, mk_iform k0 xs m (emb3 (roles_g false (Some e) alleq xs)) (fl ++ flags_of (roles_g false (Some e) alleq xs)))).
        { intros e m' E. subst KD FIN. cbv beta. found N Hent HK Heq e m' (@or_introl _ (look_reg m' = Some e) E). }
        assert (HNone : dbind (KD VNone) FIN =
                  match (if existsb is_memv xs
                         then match look_reg m with Some e => Some (Some e) | None => Some (if py_substr "." m then look_reg (str_before_dot m) else None) end
                         else Some None) with
                  | Some oe => DOk (VNone, mk_iform k0 xs m (emb3 (roles_g false oe alleq xs)) (fl ++ flags_of (roles_g false oe alleq xs)))
                  | None => DErr EIndex
                  end).
        { subst KD FIN. cbv beta. simp. destruct (existsb is_memv xs) eqn:EM.
          2:{ simp. rewrite (HK None I). reflexivity. }
          rewrite substitute_is_wild. simp. rewrite (Hr eq_refl).
          destruct (look_reg m) as [e|] eqn:E3; [found N Hent HK Heq e m (@or_intror (look_direct m = Some e) _ E3)|].
          simp. destruct (py_substr "." m) eqn:ES; simp.
          - destruct (@index_slice_dot T m ES) as (i & Hi1 & Hi2). rewrite Hi1. simp. rewrite Hi2. simp. rewrite (Hr eq_refl).
            destruct (look_reg (str_before_dot m)) as [e|] eqn:E4; [found N Hent HK Heq e (str_before_dot m) (@or_intror (look_direct (str_before_dot m) = Some e) _ E4)|].
            simp. rewrite (HK None I). reflexivity.
          - rewrite (HK None I). reflexivity. }
        clearbody KD FIN.
        destruct (py_substr "." m) eqn:ES; simp.
        + destruct (@index_slice_dot T m ES) as (i & Hi1 & Hi2). rewrite Hi1. simp. rewrite Hi2. simp.
          rewrite Hd. destruct (look_direct (str_before_dot m)) as [e|] eqn:E2; simp.
          * apply (HSome e _ E2).
          * exact HNone.
        + exact HNone.
    Qed.
  End Main.
End Compose.
Print Assumptions C03gen_assign_src_dst_is_model.

(* ---- (6) the generic role functions are Model/Roles.v's assign_roles (x86: no post-processing; AArch64: on operands without
   write-back the post-processing is the identity) ---- *)
Definition to_model_entry (e : isa_entry) : list (bool * bool) * list opnd * list (bool * bool) * bool :=
  (e_roles e, map fst (e_hidden e), map snd (e_hidden e), e_idiom e).
Theorem C03gen_roles_g_is_assign_roles_x86 : forall (oe : option isa_entry) (ops : list popnd),
  assign_roles true oe ops =
  match oe with
  | Some e => apply_found_g (e_roles e) (map fst (e_hidden e)) (map snd (e_hidden e)) (e_idiom e) (all_equal_keys ops) (map fst ops)
  | None => default_roles_g true (map fst ops)
  end.
Proof.
  intros oe ops. unfold assign_roles.
  assert (E : match oe with Some e => apply_found e ops | None => default_roles true ops end =
              match oe with
              | Some e => apply_found_g (e_roles e) (map fst (e_hidden e)) (map snd (e_hidden e)) (e_idiom e) (all_equal_keys ops) (map fst ops)
              | None => default_roles_g true (map fst ops)
              end) by (destruct oe; [apply apply_found_is_g | apply default_roles_is_g]).
  rewrite <- E. destruct (match oe with Some e => apply_found e ops | None => default_roles true ops end) as [[s d] sd]. reflexivity.
Qed.
Theorem C03gen_roles_g_is_assign_roles_aarch64_no_writeback : forall (oe : option isa_entry) (ops : list popnd),
  (let '(s, d, sd) := match oe with Some e => apply_found e ops | None => default_roles false ops end in
   writeback_bases (s ++ d ++ sd) = [] /\ map mark_base s = s /\ map mark_base d = d /\ map mark_base sd = sd) ->
  assign_roles false oe ops =
  match oe with
  | Some e => apply_found_g (e_roles e) (map fst (e_hidden e)) (map snd (e_hidden e)) (e_idiom e) (all_equal_keys ops) (map fst ops)
  | None => default_roles_g false (map fst ops)
  end.
Proof.
  intros oe ops. unfold assign_roles.
  assert (E : match oe with Some e => apply_found e ops | None => default_roles false ops end =
              match oe with
              | Some e => apply_found_g (e_roles e) (map fst (e_hidden e)) (map snd (e_hidden e)) (e_idiom e) (all_equal_keys ops) (map fst ops)
              | None => default_roles_g false (map fst ops)
              end) by (destruct oe; [apply apply_found_is_g | apply default_roles_is_g]).
  rewrite <- E. destruct (match oe with Some e => apply_found e ops | None => default_roles false ops end) as [[s d] sd].
  intros (W & Ms & Md & Msd).
  assert (Wf : forall a b : list opnd, writeback_bases (a ++ b) = writeback_bases a ++ writeback_bases b) by (intros a b; unfold writeback_bases; apply flat_map_app).
  rewrite !Wf in W. apply app_eq_nil in W. destruct W as [W1 W]. apply app_eq_nil in W. destruct W as [W2 W3].
  rewrite W1, app_nil_r, Wf, W2, W3, !app_nil_r, Ms, Md, Msd. reflexivity.
Qed.
Print Assumptions C03gen_roles_g_is_assign_roles_x86.
Print Assumptions C03gen_roles_g_is_assign_roles_aarch64_no_writeback.

(* non-vacuity of the composition theorem's statement, end to end: x86 `op (%rax), %rbx` without any ISA entry (default roles: the
   memory operand is read -> performs_load); AArch64 post-indexed load with the register-form entry: the base is registered in src_dst
   with its marks (this case is outside the proved part (no_wb), it is evaluated here) *)
Example C03gen_assign_nonvacuous_x86 :
  let mem := emb_popnd (T:=Q) 7 (OMem (mkM (Some (mkR "rax" "" false)) None 1 ONone false false 0), 0%nat) in
  let r := emb_popnd (T:=Q) 0 (OReg (mkR "rbx" "" false), 1%nat) in
  g_assign_src_dst QNum (VStr "x86") (fun _ _ => DOk VNone) (mk_iform 1 [mem; r] "op" VNone [])
  = DOk (VNone, mk_iform 1 [mem; r] "op" (emb_opdict [mem] [r] []) [VStr "performs_load"]).
Proof. vm_compute. reflexivity. Qed.
