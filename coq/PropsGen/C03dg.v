(* Property C03 -- translation tie (T) for KernelDG.create_DG (osaca/semantics/kernel_dg.py).

   Gen/DgGen.v is REGENERATED on every run by tools/gen_roles.py from the current source of create_DG as a function on the
   dynamically typed values of Model/RolesDyn.v (nx.DiGraph = the insertion-ordered container of Model/PyLcd.v; find_depending
   and self.model are parameters).  This file proves, against that text, that on the embedding of the hand model's lines
   (Model/Deps.v) the regenerated create_DG never raises and builds exactly the graph `dg_build` of Model/DgSpec.v -- node by
   node, edge by edge, in networkx' insertion order, for every kernel, every numeric instance, every alias test -- and restates
   the edge-weight theorems of Props/C03.v for it.  Compiled by the check (not by make). *)
From Coq Require Import ZArith QArith List Bool String Lia.
From OV Require Import Model.Num Model.PyLcd Model.Deps Model.RolesDyn Model.DgSpec Proofs.CritMax Proofs.DgSpec Gen.DgGen.
Import ListNotations. Open Scope string_scope. Open Scope list_scope.

Section Eq.
  Context {T : Type} (N : NumOps T) (dep : regop -> regop -> bool) (fwd pidx : T).
  Notation line := (line (T:=T)).
  Notation pv := (pv T).
  Variable fl : line -> list string.
  Hypothesis Hfl : flags_ok fl.
  (* the reports of find_depending: any objects whose line_number is the reported line *)
  Variable obj : nat -> pv.
  Hypothesis Hobj : forall n, py_getattr (obj n) A_line_number = DOk (VInt (Z.of_nat n)).
  Variable p_find_depending : pv -> pv -> pv -> dres pv.
  Variable fd : bool.
  Hypothesis Hfd : forall l rest,
    p_find_depending (emb_dgline fl l) (VList (map (emb_dgline fl) rest)) (VBool fd) = DOk (VList (map (emb_rep obj) (find_depending dep fd l rest))).

  Notation emb := (emb_dgline fl).
  Notation G := (g_create_DG N (emb_model fwd pidx) p_find_depending).

  Lemma combine_map_r {A B C} (f : B -> C) (a : list A) (b : list B) : combine a (map f b) = map (fun p => (fst p, f (snd p))) (combine a b).
  Proof. revert b. induction a as [|x a IH]; intros [|y b]; cbn; [reflexivity..|]. rewrite IH. reflexivity. Qed.

  Lemma zle n : (0 <=? Z.of_nat n)%Z = true.
  Proof. apply Z.leb_le. lia. Qed.

  Lemma ga_ln l : py_getattr (emb l) A_line_number = DOk (VInt (Z.of_nat (l_no l))). Proof. reflexivity. Qed.
  Lemma ga_fl l : py_getattr (emb l) A_flags = DOk (VList (map VStr (fl l))). Proof. reflexivity. Qed.
  Lemma ga_lat l : py_getattr (emb l) A_latency = DOk (VNum (l_lat l)). Proof. reflexivity. Qed.
  Lemma ga_wo l : py_getattr (emb l) A_latency_wo_load = DOk (VNum (l_lat_wo l)). Proof. reflexivity. Qed.

  (* the loop over the reports of one instruction *)
  Lemma reports_loop (l : line) (body : pv -> list pv -> pv -> dres (ctl (list pv * pv) pv)) :
    (forall r rs g, body (emb_rep obj r) rs (VGraph g) =
                    DOk (CNext (rs, VGraph (nx_add_edge g (zline (l_no l)) (zline (fst r)) (edge_weight N fwd pidx l (snd r)))))) ->
    forall reps g, py_loop (map (emb_rep obj) reps) (VGraph g) body = DOk (inl (VGraph (dg_reports N fwd pidx l reps g))).
  Proof.
    intros H reps g. unfold dg_reports.
    apply (loop_fold (emb_rep obj) (fun g0 => VGraph g0)
                     (fun g0 r => nx_add_edge g0 (zline (l_no l)) (zline (fst r)) (edge_weight N fwd pidx l (snd r)))).
    intros x r st. apply H.
  Qed.

  Theorem C03gen_create_DG_is_model : forall k : list line,
    G (VList (map emb k)) (VBool fd) = DOk (VGraph (dg_build N dep fwd pidx fd nx_empty k)).
  Proof.
    intros k. unfold g_create_DG. cbn [py_digraph py_enumerate py_iter dbind].
    rewrite map_length, combine_map_r, map_map. cbn [fst snd].
    change (py_loop ?l ?s ?b) with (py_loop_n (List.length l) l s b). rewrite map_length, combine_length, seq_length, Nat.min_id.
    pose (F := fun (g : nxg T) (i : nat) (l : line) (rest : list line) => dg_step N dep fwd pidx fd g l rest).
    match goal with |- context [py_loop_n _ _ _ ?b] => set (body := b) end.
    assert (Hb : forall pre x post r st, k = pre ++ x :: post ->
               body (VTuple [VInt (Z.of_nat (List.length pre)); emb x]) r (VGraph st) = DOk (CNext (r, VGraph (F st (List.length pre) x post)))).
    2:{ unfold py_digraph. pose proof (loop_fold_pos (fun i l => VTuple [VInt (Z.of_nat i); emb l]) (fun g0 : nxg T => VGraph g0) F body k Hb k [] nx_empty eq_refl) as LP.
        cbn [List.length fst snd] in LP. rewrite LP.
        cbn [dbind]. do 2 f_equal. change (Datatypes.length (@nil line)) with 0%nat. generalize (@nx_empty T) as g. generalize 0%nat as i.
        clear LP Hb body. induction k as [|l k IH]; intros i g; [reflexivity|]. cbn [dg_build]. apply IH. }
    subst body. cbv beta.
    intros pre l post r g E. cbn [py_unpack2 dbind].
    assert (Tail : skipn (Datatypes.S (List.length pre)) (map emb k) = map emb post).
    { rewrite E, map_app, skipn_app, map_length. cbn [map].
      replace (Datatypes.S (List.length pre) - List.length pre)%nat with 1%nat by lia.
      rewrite skipn_all2 by (rewrite map_length; lia). reflexivity. }
    assert (Len : (Datatypes.S (List.length pre) <= List.length (map emb k))%nat) by (rewrite map_length, E, app_length; cbn; lia).
    unfold F, dg_step, dg_head, zline, zload.
    rewrite !ga_ln. cbn [dbind py_add_node as_node py_node_setattr].
    rewrite (node_present _ _ (nx_add_node_in g (Line (Z.of_nat (l_no l))))). cbn [dbind].
    rewrite !ga_fl. cbn [dbind]. rewrite !py_in_strs. cbn [dbind].
    assert (C8 : (if existsb (String.eqb "performs_load") (fl l)
                  then DOk (negb (existsb (String.eqb "is_load_instruction") (fl l))) else DOk false)
                 = DOk (l_loadnode l)).
    { rewrite (Hfl l). destruct (existsb (String.eqb "performs_load") (fl l)); reflexivity. }
    rewrite C8. cbn [dbind]. clear C8.
    destruct (l_loadnode l).
    - cbn [fbind dbind]. rewrite ?ga_ln, ?ga_lat, ?ga_wo. cbn [dbind py_add as_int as_num]. rewrite zle. cbn [dbind py_add_node as_node py_node_setattr].
      rewrite (node_present _ _ (nx_add_node_in _ (Load (Z.of_nat (l_no l))))). cbn [dbind py_sub as_int as_num py_add_edge as_node].
      cbn [py_add as_int dbind]. replace (Z.of_nat (List.length pre) + 1)%Z with (Z.of_nat (Datatypes.S (List.length pre))) by lia.
      rewrite py_slice_tail by exact Len. cbn [dbind]. rewrite Tail, Hfd. cbn [py_iter dbind].
      cbn [fbind dbind]. erewrite (reports_loop l).
      + cbn [dbind loop_end]. reflexivity.
      + intros [n f] rs g0. cbn [emb_rep fst snd py_unpack2 dbind].
        destruct f; cbn [emb_dflag py_in py_eq dbind String.eqb Ascii.eqb Bool.eqb]; rewrite ?ga_wo, ?ga_lat, ?ga_ln, ?Hobj; cbn;
          rewrite ?ga_wo, ?ga_lat, ?ga_ln, ?Hobj; cbn; rewrite ?(node_present _ _ (nx_add_edge_has_target _ _ _ _)); reflexivity.
    - cbn [fbind dbind].
      cbn [py_add as_int dbind]. replace (Z.of_nat (List.length pre) + 1)%Z with (Z.of_nat (Datatypes.S (List.length pre))) by lia.
      rewrite py_slice_tail by exact Len. cbn [dbind]. rewrite Tail, Hfd. cbn [py_iter dbind].
      cbn [fbind dbind]. erewrite (reports_loop l).
      + cbn [dbind loop_end]. reflexivity.
      + intros [n f] rs g0. cbn [emb_rep fst snd py_unpack2 dbind].
        destruct f; cbn [emb_dflag py_in py_eq dbind String.eqb Ascii.eqb Bool.eqb]; rewrite ?ga_wo, ?ga_lat, ?ga_ln, ?Hobj; cbn;
          rewrite ?ga_wo, ?ga_lat, ?ga_ln, ?Hobj; cbn; rewrite ?(node_present _ _ (nx_add_edge_has_target _ _ _ _)); reflexivity.
  Qed.

  (* ---- what that graph is, in the terms of Props/C03.v ---- *)
  (* the model's emission list (Model/Deps.emit) as networkx operations *)
  Definition conv (e : edge (T:=T)) : op (T:=T) :=
    let '((n, isld), t, w) := e in ((if isld then zload n else zline n), zline t, w).

  Lemma lookup_reports (l : line) reps : forall g u v,
    nx_edge_latency (dg_reports N fwd pidx l reps g) u v =
    match last_op (map (fun r => conv ((l_no l, false), fst r, edge_weight N fwd pidx l (snd r))) reps) u v with
    | Some w => POk w | None => nx_edge_latency g u v end.
  Proof.
    intros g u v. unfold dg_reports. rewrite <- lookup_ops. unfold apply_ops. f_equal.
    revert g. induction reps as [|r reps IH]; intros g; [reflexivity|]. cbn [map fold_left]. apply IH.
  Qed.

  Lemma emit_cons (l : line) k : emit N dep fwd pidx fd (l :: k) =
    (if l_loadnode l then [((l_no l, true), l_no l, nsub N (l_lat l) (l_lat_wo l))] else [])
    ++ map (fun p => ((l_no l, false), fst p, edge_weight N fwd pidx l (snd p))) (find_depending dep fd l k) ++ emit N dep fwd pidx fd k.
  Proof. reflexivity. Qed.

  (* edge look-up in the regenerated graph = the LAST emission of the model for that node pair (networkx' add_edge overwrites) *)
  Theorem C03gen_graph_lookup : forall (k : list line) g u v,
    nx_edge_latency (dg_build N dep fwd pidx fd g k) u v =
    match last_op (map conv (emit N dep fwd pidx fd k)) u v with Some w => POk w | None => nx_edge_latency g u v end.
  Proof.
    induction k as [|l k IH]; intros g u v; [reflexivity|]. cbn [dg_build]. rewrite emit_cons. rewrite IH. rewrite !map_app.
    assert (LA : forall a b : list (op (T:=T)), last_op (a ++ b) u v = match last_op b u v with Some w => Some w | None => last_op a u v end).
    { induction a as [|o a IHa]; intros b; cbn [app last_op]; [destruct (last_op b u v); reflexivity|].
      rewrite IHa. destruct (last_op b u v); reflexivity. }
    rewrite !LA.
    match goal with |- _ = match match match ?a with _ => _ end with _ => _ end with _ => _ end =>
      change a with (last_op (map conv (emit N dep fwd pidx fd k)) u v) end.
    destruct (last_op (map conv (emit N dep fwd pidx fd k)) u v); [reflexivity|].
    unfold dg_step. rewrite lookup_reports. rewrite map_map. cbn [fst snd].
    match goal with |- match ?a with _ => _ end = match match ?b with _ => _ end with _ => _ end => change b with a; destruct a; [reflexivity|] end.
    unfold dg_head. destruct (l_loadnode l); cbn [map conv last_op].
    - rewrite nx_lookup_add_edge, !nx_lookup_add_node. unfold op_is. cbn [fst snd]. destruct (andb _ _); reflexivity.
    - rewrite nx_lookup_add_node. reflexivity.
  Qed.

  (* edge weights of the regenerated graph construction (Props/C03.v C03_edge_weight, for the code as it is now): the load stage
     weighs latency - latency_wo_load; a register edge the producer's latency without its load stage; a write-back edge the
     model's p_index_latency; a store-to-load edge adds the forwarding latency *)
  Theorem C03gen_edge_weights : forall (l : line) g,
    (l_loadnode l = true -> nx_edge_latency (dg_head N g l) (zload (l_no l)) (zline (l_no l)) = POk (nsub N (l_lat l) (l_lat_wo l))) /\
    (forall t f g0, nx_edge_latency (dg_reports N fwd pidx l [(t, f)] g0) (zline (l_no l)) (zline t) =
                    POk (match f with FPlain => l_lat_wo l | FPIndexed => pidx | FStoreLoad => nadd N (l_lat_wo l) fwd end)).
  Proof.
    intros l g. split.
    - intros L. unfold dg_head. rewrite L. rewrite nx_lookup_add_edge. unfold zload, zline. cbn [node_eqb]. rewrite !Z.eqb_refl. reflexivity.
    - intros t f g0. unfold dg_reports. cbn [fold_left fst snd]. rewrite nx_lookup_add_edge. unfold zline. cbn [node_eqb]. rewrite !Z.eqb_refl.
      destruct f; reflexivity.
  Qed.
End Eq.
Print Assumptions C03gen_create_DG_is_model.
Print Assumptions C03gen_graph_lookup.
Print Assumptions C03gen_edge_weights.

(* non-vacuity: the hypotheses are satisfiable -- a closed instance (exact rationals; the reports object carries just its line number) *)
Example C03gen_dg_nonvacuous :
  let dep := fun a b => String.eqb (r_name a) (r_name b) in
  let A := mkL (T:=Q) 1 (Some ([], [OReg (mkR "rax" "" false)], [])) 3 1 true [] [] in
  let B := mkL (T:=Q) 2 (Some ([OReg (mkR "rax" "" false)], [OReg (mkR "rbx" "" false)], [])) 1 1 false [] [] in
  nx_edges_data (dg_build QNum dep 0 1 false nx_empty [A; B]) = [(Line 1, Line 2, 1%Q); (Load 1, Line 1, 2%Q)].
Proof. vm_compute. reflexivity. Qed.

