(* C10 -- operand lemmas of the translator tie for the POST-PROCESSING stage of parser_AArch64.py (see PropsGen/C10post.v,
   notes/C09C10-post.md).  Compiled by the check (harness/parsepost_tie.py) against the regenerated PostA64Gen.v (logical path OVC).
   Lemmas only; the property theorems are in C10post.v. *)
From Coq Require Import String Ascii List Bool ZArith NArith Lia.
From OV Require Import Model.PyString Model.PyDyn Model.PyPost Model.LexA64 Model.ParseA64 Model.SyntaxA64 Model.PostA64.
From OV Require Import Proofs.PyDyn Proofs.PyPost Proofs.ParseA64Regs.
From OVC Require Import PostA64Gen.
Import ListNotations.
Open Scope string_scope.

Arguments nat_str : simpl nomatch.
Arguments py_lower : simpl never.
Arguments lower : simpl never.
Arguments upper : simpl never.
Arguments py_upper : simpl never.
Arguments gr_prefix : simpl never.
Arguments String.eqb : simpl nomatch.
Arguments low : simpl nomatch.
Arguments num_word : simpl never.
Arguments num_value : simpl never.
Arguments int_of_string : simpl never.
Arguments float_mant : simpl never.
Arguments Z.pow : simpl never.
Arguments string_of_Z : simpl nomatch.

(* ------------------------------------------------------------------ data facts *)
Definition name_fact (n : nat) : bool :=
  negb (String.eqb (py_lower (nat_str n)) "sp") && negb (String.eqb (py_lower (nat_str n)) "zr") && all_digits (nat_str n)
  && Z.eqb (dec_val (nat_str n)) (Z.of_nat n).
Lemma name_facts : forall n, Nat.ltb n 32 = true -> name_fact n = true.
Proof. apply below32. vm_compute. reflexivity. Qed.
Lemma name_not_sp : forall n, Nat.ltb n 32 = true -> String.eqb (py_lower (nat_str n)) "sp" = false.
Proof. intros n H. pose proof (name_facts n H) as F. unfold name_fact in F. rewrite !andb_true_iff in F. destruct F as [[[A _] _] _]. apply negb_true_iff in A. exact A. Qed.
Lemma name_not_zr : forall n, Nat.ltb n 32 = true -> String.eqb (py_lower (nat_str n)) "zr" = false.
Proof. intros n H. pose proof (name_facts n H) as F. unfold name_fact in F. rewrite !andb_true_iff in F. destruct F as [[[_ A] _] _]. apply negb_true_iff in A. exact A. Qed.

Lemma wreg_lt : forall r, wreg_okb r = true -> Nat.ltb (w_num r) 32 = true.
Proof. intros r H. unfold wreg_okb in H. apply andb_true_iff in H. tauto. Qed.

Lemma lower_prefix : forall r, py_lower (gr_prefix r) = String (low (w_pre r)) "".
Proof. intros r. unfold gr_prefix, s1. destruct (is_scalar r); rewrite py_lower_cons, py_lower_nil; [|rewrite low_idem]; reflexivity. Qed.

Ltac lows := unfold s1; rewrite ?lower_prefix, ?py_lower_cons, ?py_lower_nil, ?low_idem.

(* ------------------------------------------------------------------ registers *)
Lemma post_reg_plain : forall orc r, wreg_okb r = true ->
  g_process_operand orc (gr_wop (WReg (RPlain r))) = Ok (emb_wop (WReg (RPlain r))).
Proof.
  intros orc r H. pose proof (name_not_sp _ (wreg_lt r H)) as N. destruct r as [c n arr]. cbn [w_num] in N.
  destruct arr as [[[|lc lt] s]|]; cbn; rewrite N; cbn; lows; cbn; lows; reflexivity.
Qed.

Lemma post_reg_indexed : forall orc r i, wreg_okb r = true ->
  g_process_operand orc (gr_wop (WReg (RIndexed r i))) = Ok (emb_wop (WReg (RIndexed r i))).
Proof.
  intros orc r i H. pose proof (name_not_sp _ (wreg_lt r H)) as N. destruct r as [c n arr]. cbn [w_num] in N.
  destruct arr as [[[|lc lt] s]|]; cbn; rewrite N; cbn; lows; cbn; lows; reflexivity.
Qed.

Lemma post_reg_pred : forall orc r m, wreg_okb r = true -> w_arr r = None ->
  g_process_operand orc (gr_wop (WReg (RPredicated r m))) = Ok (emb_wop (WReg (RPredicated r m))).
Proof.
  intros orc r m H A. pose proof (name_not_sp _ (wreg_lt r H)) as N. destruct r as [c n arr]. cbn [w_num] in N. cbn in A. subst arr.
  cbn; rewrite N; cbn; lows; cbn; lows; reflexivity.
Qed.

Lemma post_reg_sp : forall orc w, mem_str w sp_words = true ->
  g_process_operand orc (gr_wop (WReg (RSp w))) = Ok (emb_wop (WReg (RSp w))).
Proof.
  intros orc w H. apply mem_str_In in H. unfold sp_words in H. simpl in H.
  repeat (destruct H as [<-|H]; [reflexivity|]). destruct H.
Qed.
Lemma post_reg_zr : forall orc w, mem_str w zr_words = true ->
  g_process_operand orc (gr_wop (WReg (RZr w))) = Ok (emb_wop (WReg (RZr w))).
Proof.
  intros orc w H. apply mem_str_In in H. unfold zr_words in H. simpl in H.
  repeat (destruct H as [<-|H]; [reflexivity|]). destruct H.
Qed.

Lemma post_wreg : forall orc o, wregop_okb o = true ->
  g_process_operand orc (gr_wop (WReg o)) = Ok (emb_wop (WReg o)).
Proof.
  intros orc [r|r i|r m|w|w] H; cbn [wregop_okb] in H.
  - apply post_reg_plain; exact H.
  - apply andb_true_iff in H. apply post_reg_indexed; tauto.
  - rewrite !andb_true_iff in H. destruct H as (A & _ & B & _). apply post_reg_pred; [exact A|]. destruct (w_arr r); [discriminate|reflexivity].
  - apply post_reg_sp; exact H.
  - apply post_reg_zr; exact H.
Qed.

(* ------------------------------------------------------------------ condition codes, identifiers, immediates *)
Lemma upc_idem : forall c, upc (upc c) = upc c.
Proof. allch. Qed.
Lemma upper_idem : forall s, upper (upper s) = upper s.
Proof. induction s as [|c s IH]; auto. unfold upper in *. simpl. rewrite upc_idem, IH. reflexivity. Qed.

Lemma post_cond : forall orc w,
  g_process_operand orc (gr_wop (WCond w)) = Ok (emb_wop (WCond w)).
Proof. intros orc w. cbn. rewrite py_upper_upper, upper_idem. reflexivity. Qed.

Lemma post_ident : forall orc h w,
  g_process_operand orc (gr_wop (WIdent h w)) = Ok (emb_wop (WIdent h w)).
Proof. intros. reflexivity. Qed.

Lemma post_int : forall orc h n, num_okb n = true ->
  g_process_operand orc (gr_wop (WInt h n)) = Ok (emb_wop (WInt h n)).
Proof. intros orc h n H. cbn. rewrite (int_num_word n H). reflexivity. Qed.

Lemma post_flt : forall orc h f,
  g_process_operand orc (gr_wop (WFlt h f)) = Ok (emb_wop (WFlt h f)).
Proof. intros orc h [neg ip fp [[[e sg] d]|] [sf|]]; reflexivity. Qed.

(* ------------------------------------------------------------------ stepping through translated code
   One round: evaluate without zeta (the join continuations `let k := fun ... in` stay shared, so a test that is
   stuck on data does not duplicate the rest of the function), rewrite the data facts, inline the outermost
   continuation once its call site is decided. *)
Ltac zhead := match goal with |- (let x := ?F in @?B x) = ?R => change ((B F) = R); cbv beta end.
Ltac run facts := repeat progress (cbn beta iota delta; rewrite ?list_index_0, ?list_index_1; facts; try zhead);
                  repeat progress (cbn; facts; lows).

(* ------------------------------------------------------------------ memory operands *)
Definition ext_test (op : string) : bool :=
  (py_lower (lower op) =? "lsl") || ((py_lower (lower op) =? "uxtw") || ((py_lower (lower op) =? "uxtb")
  || ((py_lower (lower op) =? "sxtw") || ((py_lower (lower op) =? "sxtx") || false)))).
Lemma ext_tests : forall op, mem_str op (ext_words fx_all) = true -> ext_test op = true.
Proof.
  intros op H. apply mem_str_In in H.
  assert (F : forallb ext_test (ext_words fx_all) = true) by (vm_compute; reflexivity).
  rewrite forallb_forall in F. exact (F op H).
Qed.

Lemma num_val_nonneg : forall s acc, sall is_digit s = true -> (0 <= acc)%Z -> (0 <= num_val 10 s acc)%Z.
Proof.
  induction s as [|c s IH]; intros acc H A; simpl; auto.
  simpl in H. apply andb_true_iff in H. destruct H as [D H]. apply IH; auto.
  assert (0 <= digit_val c)%Z.
  { unfold digit_val. rewrite D. unfold is_digit, in_rng in D. apply andb_true_iff in D. destruct D as [D _]. apply N.leb_le in D. lia. }
  lia.
Qed.
Lemma amount_nonneg : forall k, num_okb k = true -> n_neg k = false -> n_hex k = false -> Z.ltb (num_value k) 0 = false.
Proof.
  intros [neg hex d] H N X. cbn in N, X. subst. unfold num_okb, dec_ok, all_digits in H. cbn [n_hex n_digits] in H.
  unfold num_value. cbn [n_neg n_hex n_digits]. apply Z.ltb_ge. unfold dec_val. apply num_val_nonneg; [|lia].
  rewrite !andb_true_iff in H. tauto.
Qed.

Lemma sp_alias : forall w, mem_str w sp_words = true ->
  exists p nm, gr_alias w = [("prefix", p); ("name", PStr nm)] /\ py_lower nm = "sp" /\ den_base_name (BSp w) = nm.
Proof.
  intros w H. apply mem_str_In in H. unfold sp_words in H. simpl in H.
  repeat (destruct H as [<-|H]; [eexists; eexists; repeat split; reflexivity|]). destruct H.
Qed.

Definition tail_okb (t : wmemtail) : bool :=
  match t with
  | MTNone => true
  | MTOff _ n => num_okb n
  | MTIdx p n e => andb (memb p ["x";"w";"X";"W"]%char) (andb (Nat.ltb n 32) (match e with None => true | Some e' => wext_okb fx_all e' end))
  end.

Lemma post_mem : forall orc b t c, wop_okb fx_all (WMem b t c) = true ->
  g_process_operand orc (gr_wop (WMem b t c)) = Ok (emb_wop (WMem b t c)).
Proof.
  intros orc b t c H. cbn [wop_okb] in H. rewrite !andb_true_iff in H. destruct H as (Hb & Ht & Hc).
  (* the base: name tests and the prefix the constructor keeps *)
  assert (B : exists p nm, gr_base b = [("prefix", p); ("name", PStr nm)] /\ den_base_name b = nm /\
              ((String.eqb (py_lower nm) "sp" = false /\ String.eqb (py_lower nm) "zr" = false /\ (exists c, p = PStr (String c "") /\ low c = "x"%char)) \/ py_lower nm = "sp")).
  { destruct b as [up n|w]; cbn [wbase_okb] in Hb.
    - exists (PStr (if up then "X" else "x")), (nat_str n). repeat split. left. repeat split; [apply name_not_sp | apply name_not_zr |]; auto. destruct up; eexists; split; reflexivity.
    - destruct (sp_alias w Hb) as (p & nm & E & L & D). exists p, nm. repeat split; auto. }
  destruct B as (bp & bn & EB & DB & FB).
  unfold gr_wop, emb_wop, den_wop, emb_operand. rewrite DB. unfold gr_wop. rewrite EB. clear EB DB Hb b.
  assert (Cn : match c with MCPost _ n => int_of_string true (num_word n) = Ok (num_value n) | _ => True end).
  { destruct c; auto. apply int_num_word. exact Hc. }
  destruct t as [|h k|p n e].
  - (* [base] *)
    destruct FB as [(S1 & S2 & (cx & -> & Lx)) | S]; destruct c as [| |hc nc];
      run ltac:(rewrite ?S1, ?S2, ?S, ?Lx, ?Cn); reflexivity.
  - (* [base, #imm] *)
    pose proof (int_num_word k Ht) as K.
    destruct FB as [(S1 & S2 & (cx & -> & Lx)) | S]; destruct c as [| |hc nc];
      run ltac:(rewrite ?S1, ?S2, ?S, ?Lx, ?Cn, ?K); reflexivity.
  - (* [base, xN (, ext (#n)?)?] *)
    cbn [tail_okb] in Ht. rewrite !andb_true_iff in Ht. destruct Ht as (Hp & Hn & He).
    pose proof (name_not_sp _ Hn) as I1. pose proof (name_not_zr _ Hn) as I2.
    destruct e as [[op [[ha ka]|]]|].
    + cbn [wext_okb] in He. rewrite !andb_true_iff in He. destruct He as (Hop & Hk & Hneg & Hhex).
      apply negb_true_iff in Hneg. apply negb_true_iff in Hhex.
      pose proof (ext_tests op Hop) as X. unfold ext_test in X.
      pose proof (int10_num_word ka Hk Hneg Hhex) as K. pose proof (amount_nonneg ka Hk Hneg Hhex) as Knn.
      destruct FB as [(S1 & S2 & (cx & -> & Lx)) | S]; destruct c as [| |hc nc];
        run ltac:(rewrite ?S1, ?S2, ?S, ?Lx, ?I1, ?I2, ?Cn, ?X, ?K, ?Knn); reflexivity.
    + cbn [wext_okb] in He. rewrite !andb_true_iff in He. destruct He as (Hop & _).
      destruct FB as [(S1 & S2 & (cx & -> & Lx)) | S]; destruct c as [| |hc nc];
        run ltac:(rewrite ?S1, ?S2, ?S, ?Lx, ?I1, ?I2, ?Cn); reflexivity.
    + destruct FB as [(S1 & S2 & (cx & -> & Lx)) | S]; destruct c as [| |hc nc];
        run ltac:(rewrite ?S1, ?S2, ?S, ?Lx, ?I1, ?I2, ?Cn); reflexivity.
Qed.
