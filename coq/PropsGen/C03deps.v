(* Properties C03 / C06 -- translation tie (T) for the dependency predicates of osaca/semantics/kernel_dg.py.

   Gen/DepsGen.v is REGENERATED on every run by tools/gen_deps.py from the current source of
     KernelDG.is_read, is_written, is_memstore, is_memload, _update_reg_changes, find_depending
     ParserX86ATT.is_flag_dependend_of, ParserAArch64.is_flag_dependend_of
   as functions on dynamically typed values (Model/DepsDyn.v: every Python exception is an error value).  This file proves,
   against that text, that on the embedding of the hand model's types the regenerated functions never raise and return exactly
   what the hand model (Model/Deps.v) returns -- for every operand, every line, every tracked state, every kernel -- and
   restates the C03 theorems of Props/C03.v for the regenerated find_depending.  (PropsGen/C06deps.v does the same for C06.)
   Compiled by the checks (not by make).  The register alias test is a parameter here as in the hand model; the closed
   instances at the end plug in property C12's regenerated is_reg_dependend_of of both ISAs. *)
From Coq Require Import ZArith List Bool String Lia.
From OV Require Import Model.Deps Model.RegRec Model.DepsDyn Proofs.DepsDyn Proofs.DepsScan Gen.DepsGen Gen.RegDepX86 Gen.RegDepA64.
Import ListNotations. Open Scope string_scope. Open Scope list_scope.

Section Eq.
  Context {T : Type} (dep : regop -> regop -> bool).
  Variable p_regdep p_flagdep : pv -> pv -> dres pv.
  Variable arch : pv.
  Hypothesis Harch : py_is_none arch = false.
  Hypothesis Hreg : forall a r, regflag a -> p_regdep (emb_opnd a) (emb_reg r) = DOk (VBool (reg_vs_reg dep a r)).
  Hypothesis Hflag : forall a n, regflag a -> p_flagdep (emb_opnd a) (emb_flag n) = DOk (VBool (vs_flag a n)).
  Notation line := (line (T:=T)).

  Ltac rw := repeat match goal with H : forall a _, regflag a -> _ = _ |- _ => rewrite H by assumption end.
  Ltac dep_cases a :=
    repeat match goal with |- context [reg_vs_reg dep a ?r] => destruct (reg_vs_reg dep a r); cbn; rw; cbn end.

  Lemma gen_is_read a (l : line) : regflag a ->
    g_is_read p_regdep p_flagdep (emb_opnd a) (emb_line l) = DOk (VBool (is_read dep a l)).
  Proof.
    intros Ha. unfold g_is_read, is_read, srcs, dsts. cbn.
    destruct (l_sem l) as [[[s d] sd]|]; cbn; [|reflexivity].
    rewrite <- !map_app.
    pose proof Hreg as Hr. pose proof Hflag as Hf. unfold emb_reg, emb_flag in Hr, Hf.
    erewrite (loop_orb (fun s0 => match s0 with
           | OReg r => reg_vs_reg dep a r
           | OFlag n => vs_flag a n
           | OMem m => opt_dep dep a (m_base m) || opt_dep dep a (m_index m)
           | OOther => false
           end)).
    2:{ intros o b. destruct o as [r|n|m|]; cbn.
        - rw. cbn. destruct (reg_vs_reg dep a r); reflexivity.
        - rw. cbn. destruct (vs_flag a n); reflexivity.
        - destruct (m_base m) as [rb|], (m_index m) as [ri|]; cbn; rw; cbn; dep_cases a; reflexivity.
        - reflexivity. }
    cbn.
    erewrite (loop_orb (fun d0 : opnd => match d0 with
              | OMem m => opt_dep dep a (m_base m) || opt_dep dep a (m_index m)
              | _ => false
              end)).
    2:{ intros o b. destruct o as [r|n|m|]; cbn; try reflexivity.
        destruct (m_base m) as [rb|], (m_index m) as [ri|]; cbn; rw; cbn; dep_cases a; reflexivity. }
    cbn. do 2 f_equal. rewrite orb_false_r. apply orb_comm.
  Qed.

  Lemma wf_parts (l : line) s d sd : l_sem l = Some (s, d, sd) -> wf_line l -> Forall wf_opnd (d ++ sd) /\ Forall wf_opnd (s ++ sd).
  Proof.
    unfold wf_line. intros -> F. rewrite !Forall_app in *. tauto.
  Qed.

  Lemma gen_is_written a (l : line) : regflag a -> wf_line l ->
    g_is_written p_regdep p_flagdep (emb_opnd a) (emb_line l) = DOk (VBool (is_written dep a l)).
  Proof.
    intros Ha Wf. unfold g_is_written, is_written, srcs, dsts. cbn.
    destruct (l_sem l) as [[[s d] sd]|] eqn:Es; cbn; [|reflexivity].
    destruct (wf_parts _ _ _ _ Es Wf) as [Wd Ws].
    rewrite <- !map_app.
    pose proof Hreg as Hr. pose proof Hflag as Hf. unfold emb_reg, emb_flag in Hr, Hf.
    erewrite (loop_orb_P wf_opnd (fun d0 => match d0 with
           | OReg r => reg_vs_reg dep a r
           | OFlag n => vs_flag a n
           | OMem m => andb (orb (m_pre m) (m_post m)) (opt_dep dep a (m_base m))
           | OOther => false
           end)); [|clear Wd Ws|exact Wd].
    2:{ intros o b Wo. destruct o as [r|n|m|]; cbn.
        - rw. cbn. destruct (reg_vs_reg dep a r); reflexivity.
        - rw. cbn. destruct (vs_flag a n); reflexivity.
        - cbn in Wo. unfold wf_mem in Wo.
          destruct (m_pre m), (m_post m), (m_base m) as [rb|]; cbn; rw; cbn; dep_cases a; try reflexivity;
            exfalso; apply Wo; reflexivity.
        - reflexivity. }
    cbn.
    erewrite (loop_orb_P wf_opnd (fun s0 => match s0 with
           | OMem m => andb (orb (m_pre m) (m_post m)) (opt_dep dep a (m_base m))
           | _ => false
           end)); [|clear Wd Ws|exact Ws].
    2:{ intros o b Wo. destruct o as [r|n|m|]; cbn; try reflexivity.
        cbn in Wo. unfold wf_mem in Wo.
        destruct (m_pre m), (m_post m), (m_base m) as [rb|]; cbn; rw; cbn; dep_cases a; try reflexivity;
          exfalso; apply Wo; reflexivity. }
    cbn. do 2 f_equal. rewrite orb_false_r. apply orb_comm.
  Qed.

  Lemma gen_is_memstore mem (l : line) rc :
    g_is_memstore (emb_mem mem) (emb_line l) rc = DOk (VBool (is_memstore mem l)).
  Proof.
    unfold g_is_memstore, is_memstore, dsts. cbn.
    destruct (l_sem l) as [[[s d] sd]|]; cbn; [|reflexivity].
    rewrite <- !map_app.
    erewrite (loop_orb (fun o => match o with OMem m => Nat.eqb (m_key m) (m_key mem) | _ => false end)).
    2:{ intros o b. destruct o as [r|n|m|]; cbn; try reflexivity.
        replace (Z.of_nat (m_key mem) =? Z.of_nat (m_key m))%Z with (Nat.eqb (m_key m) (m_key mem)).
        - destruct (Nat.eqb (m_key m) (m_key mem)); reflexivity.
        - destruct (Nat.eqb_spec (m_key m) (m_key mem)) as [E|N]; symmetry; [apply Z.eqb_eq | apply Z.eqb_neq]; lia. }
    cbn. rewrite orb_false_r. reflexivity.
  Qed.

  Lemma gen_is_memload mem (l : line) s :
    g_is_memload (emb_mem mem) (emb_line l) (emb_changes s) = DOk (VBool (is_memload mem l s)).
  Proof.
    unfold g_is_memload, is_memload, srcs. cbn.
    destruct (l_sem l) as [[[ss d] sd]|]; cbn; [|reflexivity].
    rewrite <- !map_app.
    erewrite (loop_find (fun o => match o with OMem m => memload_one mem s m | _ => false end)).
    { destruct (existsb _ _); reflexivity. }
    intros o. destruct o as [r|n|m|]; cbn; try reflexivity.
    unfold memload_one, lookup_change, fullname.
    repeat (cbn; rewrite ?pfx, ?str_assoc_emb; cbn;
      match goal with
      | |- ?x = ?x => fail 1
      | |- context [emb_off (m_off ?m)] => destruct (m_off m)
      | |- context [match m_off ?m with _ => _ end] => destruct (m_off m)
      | |- context [emb_oreg (m_base ?m)] => destruct (m_base m)
      | |- context [emb_oreg (m_index ?m)] => destruct (m_index m)
      | |- context [m_pre ?m] => destruct (m_pre m)
      | |- context [rs_get ?s ?k] => destruct (rs_get s k) as [[[? ?]|]|]
      | |- context [String.eqb ?a ?b] => destruct (String.eqb a b)
      | |- context [Z.eqb ?a ?b] => let E := fresh "E" in destruct (Z.eqb a b) eqn:E
      end); try reflexivity.
    all: try (exfalso; repeat match goal with H : Z.eqb _ _ = true |- _ => apply Z.eqb_eq in H | H : Z.eqb _ _ = false |- _ => apply Z.eqb_neq in H end; lia).
  Qed.

  Lemma gen_update (l : line) rs s post :
    (if py_is_none rs then VDict [] else rs) = emb_changes s ->
    g_update_reg_changes arch (emb_line l) rs (VBool post) =
    DOk (emb_changes (update_changes s (if post then l_chg_post l else l_chg l)),
         emb_changes (update_changes s (if post then l_chg_post l else l_chg l))).
  Proof.
    intros Hrs. unfold g_update_reg_changes. rewrite Harch. cbn [fbind dbind]. rewrite Hrs.
    destruct post; cbn; rewrite map_map;
    (erewrite (loop_fold _ emb_changes (fun st kc => update_one st (fst kc) (snd kc))); [reflexivity|]).
    all: intros [reg c] st; unfold update_one; cbn [fst snd].
    all: destruct c as [[cname cval]|]; cbn.
    all: try (rewrite str_set_emb_none; reflexivity).
    all: rewrite !str_assoc_emb.
    all: destruct (String.eqb cname reg) eqn:E; [apply String.eqb_eq in E; subst cname|].
    all: repeat first [ progress (cbn; rewrite ?str_set_emb_none, ?str_set_emb_some, ?str_assoc_emb, ?rs_get_set_same, ?rs_set_set, ?String.eqb_refl; try rewrite rs_get_set_other by assumption;
      try rewrite E; repeat match goal with H : rs_get ?s ?k = _ |- context [rs_get ?s ?k] => rewrite H end)
      | match goal with
      | |- ?x = ?x => fail 1
      | |- context [rs_get ?s ?k] => destruct (rs_get s k) as [[[? ?]|]|] eqn:?
      end ].
    all: reflexivity.
  Qed.

  Lemma gen_update_emb (l : line) s post :
    g_update_reg_changes arch (emb_line l) (emb_changes s) (VBool post) =
    DOk (emb_changes (update_changes s (if post then l_chg_post l else l_chg l)),
         emb_changes (update_changes s (if post then l_chg_post l else l_chg l))).
  Proof. apply gen_update. reflexivity. Qed.
  Lemma not_none_emb s : py_not_none (emb_changes s) = DOk (emb_changes s).
  Proof. reflexivity. Qed.

  Lemma gen_find_depending fd (A : line) (rest : list line) : Forall wf_line rest ->
    g_find_depending p_regdep p_flagdep arch (emb_line A) (VList (map emb_line rest)) (VBool fd) =
    DOk (VList (map emb_report (find_dependingL dep fd A rest))).
  Proof.
    intros Wf. unfold g_find_depending, find_dependingL, dsts. cbn.
    destruct (l_sem A) as [[[s d] sd]|]; cbn; [|reflexivity].
    rewrite <- !map_app.
    destruct (enumerate_items rest) as (its & Hen & Hits). unfold py_enumerate in Hen. cbn in Hen. injection Hen as Hen.
    match goal with |- context [py_loop _ _ ?body] =>
      assert (Hb : forall dd out, body (emb_opnd dd) (VList (map emb_report out)) =
         DOk (CNext (VList (map emb_report (out ++ scanL dep fd dd rest (update_changes (update_changes [] (l_chg A)) (l_chg_post A)))))))
    end.
    2:{ rewrite (loop_fold emb_opnd (fun o : list (line * dflag) => VList (map emb_report o))
               (fun o dd => o ++ scanL dep fd dd rest (update_changes (update_changes [] (l_chg A)) (l_chg_post A))) _ Hb (d ++ sd) []
               : py_loop (map emb_opnd (d ++ sd)) (VList []) _ = _).
        cbn. rewrite fold_flat_map. reflexivity. }
    intros dd out.
    rewrite (gen_update A VNone [] false eq_refl). cbn [dbind]. rewrite not_none_emb. cbn [dbind]. rewrite gen_update_emb. cbn [dbind]. rewrite Hen.
    match goal with |- context [py_loop its _ ?body] =>
      destruct (loop_scan (T:=T) dep (wf_line (T:=T)) fd dd body) with (its := its) (rest := rest)
         (s := update_changes (update_changes [] (l_chg A)) (l_chg_post A)) (out := out) as [s' Hs']; [|exact Hits|exact Wf|]
    end.
    2:{ rewrite Hs'. cbn. reflexivity. }
    clear Hen Hits Wf. intros i l s0 out0 Wl. cbn [py_unpack2 dbind]. rewrite not_none_emb. cbn [dbind]. rewrite gen_update_emb. cbn [dbind].
    unfold scan_step.
    destruct dd as [r|n|m|]; cbn.
    - change (emb_reg r) with (emb_opnd (OReg r)).
      rewrite (gen_is_read (OReg r) l I), (gen_is_written (OReg r) l I Wl). unfold flag_of.
      destruct (is_read dep (OReg r) l), (r_pidx r), (is_written dep (OReg r) l); cbn;
        rewrite ?gen_update_emb; cbn; rewrite ?map_app, ?app_nil_r; reflexivity.
    - destruct fd; cbn.
      + change (emb_flag n) with (emb_opnd (OFlag n)).
        rewrite (gen_is_read (OFlag n) l I), (gen_is_written (OFlag n) l I Wl).
        destruct (is_read dep (OFlag n) l), (is_written dep (OFlag n) l); cbn;
          rewrite ?gen_update_emb; cbn; rewrite ?map_app, ?app_nil_r; reflexivity.
      + rewrite gen_update_emb. cbn. rewrite app_nil_r. reflexivity.
    - rewrite gen_is_memload, gen_is_memstore.
      destruct (is_memload m l _), (is_memstore m l); cbn;
        rewrite ?gen_update_emb; cbn; rewrite ?map_app, ?app_nil_r; reflexivity.
    - rewrite gen_update_emb. cbn. rewrite app_nil_r. reflexivity.
  Qed.

End Eq.

(* ---------------------------------------------------------------- closed instances: both ISAs *)
Lemma reg_view_emb r : reg_view (emb_reg r) = Some (mkreg (r_name r) (r_prefix r)).
Proof. destruct r as [n p x]. destruct p; reflexivity. Qed.

Lemma pdep_of_spec f a r : regflag a -> pdep_of f (emb_opnd a) (emb_reg r) = DOk (VBool (reg_vs_reg (dep_of f) a r)).
Proof.
  intros Ha. destruct a as [ra|n|m|]; try contradiction.
  - unfold pdep_of. cbn [emb_opnd]. change (emb_reg ra) with (VObj C_RegisterOperand
      [(A_name, VStr (r_name ra)); (A_prefix, emb_prefix (r_prefix ra)); (A_pre_indexed, VBool (r_pidx ra)); (A_post_indexed, VBool false)]) at 1.
    cbv iota beta. change (VObj C_RegisterOperand _) with (emb_reg ra). rewrite !reg_view_emb. reflexivity.
  - unfold pdep_of. cbn [emb_opnd emb_flag]. rewrite reg_view_emb. reflexivity.
Qed.

Lemma flagdep_x86_spec a n : regflag a -> g_x86_is_flag_dependend_of (emb_opnd a) (emb_flag n) = DOk (VBool (vs_flag a n)).
Proof. intros Ha. destruct a as [ra|m|m|]; try contradiction; reflexivity. Qed.
Lemma flagdep_a64_spec a n : regflag a -> g_a64_is_flag_dependend_of (emb_opnd a) (emb_flag n) = DOk (VBool (vs_flag a n)).
Proof. intros Ha. destruct a as [ra|m|m|]; try contradiction; reflexivity. Qed.

(* the object standing for self.arch_sem: any value that is not None *)
Definition some_arch_sem : pv := VObj C_Other [].
Definition depx : regop -> regop -> bool := dep_of x86_is_reg_dependend_of.
Definition depa : regop -> regop -> bool := dep_of a64_is_reg_dependend_of.
Definition px := pdep_of x86_is_reg_dependend_of.
Definition pa := pdep_of a64_is_reg_dependend_of.

(* ================================================================ property-level theorems *)
(* ---- the regenerated functions ARE the hand model, for every input of the model's types.  `dep` is any register alias test,
   p_regdep / p_flagdep any functions on values that compute reg_vs_reg dep / vs_flag on embedded operands *)
Definition tie_hyps (dep : regop -> regop -> bool) (p_regdep p_flagdep : pv -> pv -> dres pv) (arch : pv) : Prop :=
  py_is_none arch = false /\
  (forall a r, regflag a -> p_regdep (emb_opnd a) (emb_reg r) = DOk (VBool (reg_vs_reg dep a r))) /\
  (forall a n, regflag a -> p_flagdep (emb_opnd a) (emb_flag n) = DOk (VBool (vs_flag a n))).

Theorem C03gen_is_read_is_model : forall (T : Type) dep pr pf arch, tie_hyps dep pr pf arch ->
  forall a (l : line (T:=T)), regflag a -> g_is_read pr pf (emb_opnd a) (emb_line l) = DOk (VBool (is_read dep a l)).
Proof. intros T dep pr pf arch (H1 & H2 & H3). exact (gen_is_read dep pr pf H2 H3). Qed.
Print Assumptions C03gen_is_read_is_model.

Theorem C03gen_is_written_is_model : forall (T : Type) dep pr pf arch, tie_hyps dep pr pf arch ->
  forall a (l : line (T:=T)), regflag a -> wf_line l -> g_is_written pr pf (emb_opnd a) (emb_line l) = DOk (VBool (is_written dep a l)).
Proof. intros T dep pr pf arch (H1 & H2 & H3). exact (gen_is_written dep pr pf H2 H3). Qed.
Print Assumptions C03gen_is_written_is_model.

(* without the well-formedness premise the implementation raises where the totalised hand model answers False:
   is_written asks the alias test about `dst.base` = None of a write-back operand without base *)
Theorem C03gen_is_written_raises_on_write_back_without_base :
  g_is_written px g_x86_is_flag_dependend_of (emb_opnd (OReg (mkR "rax" "" false)))
     (emb_line (mkL (T:=nat) 1 (Some ([], [OMem (mkM None None 1 ONone true false 0)], [])) 0 0 false [] [])) = DErr EUnmodelled /\
  is_written depx (OReg (mkR "rax" "" false)) (mkL (T:=nat) 1 (Some ([], [OMem (mkM None None 1 ONone true false 0)], [])) 0 0 false [] []) = false.
Proof. split; vm_compute; reflexivity. Qed.

Theorem C03gen_is_memstore_is_model : forall (T : Type) mem (l : line (T:=T)) rc,
  g_is_memstore (emb_mem mem) (emb_line l) rc = DOk (VBool (is_memstore mem l)).
Proof. intros T. exact (gen_is_memstore (T:=T)). Qed.
Print Assumptions C03gen_is_memstore_is_model.

Theorem C03gen_is_memload_is_model : forall (T : Type) mem (l : line (T:=T)) s,
  g_is_memload (emb_mem mem) (emb_line l) (emb_changes s) = DOk (VBool (is_memload mem l s)).
Proof. intros T. exact (gen_is_memload (T:=T)). Qed.
Print Assumptions C03gen_is_memload_is_model.

(* _update_reg_changes(iform, reg_state, only_postindexed): returns (and leaves in reg_state) the hand model's update_changes of
   the tracked state under the register changes get_reg_changes reports for the line; reg_state=None starts from {} *)
Theorem C03gen_update_reg_changes_is_model : forall (T : Type) arch, py_is_none arch = false ->
  forall (l : line (T:=T)) s (post : bool),
  let s' := update_changes s (if post then l_chg_post l else l_chg l) in
  g_update_reg_changes arch (emb_line l) (emb_changes s) (VBool post) = DOk (emb_changes s', emb_changes s') /\
  (s = [] -> g_update_reg_changes arch (emb_line l) VNone (VBool post) = DOk (emb_changes s', emb_changes s')).
Proof.
  intros T arch Ha l s post. split.
  - apply (gen_update_emb (T:=T) arch Ha).
  - intros ->. apply (gen_update (T:=T) arch Ha). reflexivity.
Qed.
Print Assumptions C03gen_update_reg_changes_is_model.

(* find_depending: the list of (instruction form, flags) it yields is the hand model's scan (lines instead of line numbers) *)
Theorem C03gen_find_depending_is_model : forall (T : Type) dep pr pf arch, tie_hyps dep pr pf arch ->
  forall fd (A : line (T:=T)) rest, Forall wf_line rest ->
  g_find_depending pr pf arch (emb_line A) (VList (map emb_line rest)) (VBool fd) =
    DOk (VList (map emb_report (find_dependingL dep fd A rest))) /\
  map rep_no (find_dependingL dep fd A rest) = find_depending dep fd A rest.
Proof.
  intros T dep pr pf arch (H1 & H2 & H3) fd A rest Wf. split.
  - exact (gen_find_depending dep pr pf arch H1 H2 H3 fd A rest Wf).
  - apply find_dependingL_spec.
Qed.
Print Assumptions C03gen_find_depending_is_model.

(* the premises are satisfiable: both ISAs, with C12's regenerated alias test and the regenerated flag test *)
Theorem C03gen_tie_x86 : tie_hyps depx px g_x86_is_flag_dependend_of some_arch_sem.
Proof. repeat split. - intros; apply pdep_of_spec; assumption. - intros; apply flagdep_x86_spec; assumption. Qed.
Print Assumptions C03gen_tie_x86.
Theorem C03gen_tie_a64 : tie_hyps depa pa g_a64_is_flag_dependend_of some_arch_sem.
Proof. repeat split. - intros; apply pdep_of_spec; assumption. - intros; apply flagdep_a64_spec; assumption. Qed.
Print Assumptions C03gen_tie_a64.

(* ---- Props/C03.v restated for the regenerated find_depending ---- *)
(* the regenerated find_depending yields a list of reports such that a report on instruction number n that is not a store-to-load
   report exists iff instruction n (one of those after A) reads a register -- or, only with flag dependencies requested, a flag --
   that A writes and no instruction between them writes it *)
Theorem C03gen_raw_iff_edge : forall (T : Type) dep pr pf arch, tie_hyps dep pr pf arch ->
  forall fd (A : line (T:=T)) rest, Forall wf_line rest ->
  exists reps, g_find_depending pr pf arch (emb_line A) (VList (map emb_line rest)) (VBool fd) = DOk (VList (map emb_report reps)) /\
    forall n, (exists (B : line (T:=T)) f, In (B, f) reps /\ l_no B = n /\ f <> FStoreLoad) <->
              (exists d (B : line (T:=T)), In d (dsts A) /\ is_regflag fd d /\ reached dep d rest B /\ l_no B = n /\ is_read dep d B = true).
Proof.
  intros T dep pr pf arch H fd A rest Wf. destruct (C03gen_find_depending_is_model T dep pr pf arch H fd A rest Wf) as [E M].
  exists (find_dependingL dep fd A rest). split; [exact E|]. intros n.
  rewrite <- (raw_iff_edge dep fd A rest n). rewrite <- M. split.
  - intros (B & f & Hin & Hn & Hf). exists f. split; [|exact Hf]. apply in_map_iff. exists (B, f). split; [|exact Hin].
    unfold rep_no. cbn. rewrite Hn. reflexivity.
  - intros (f & Hin & Hf). apply in_map_iff in Hin. destruct Hin as ([B f'] & E1 & Hin). unfold rep_no in E1. cbn in E1.
    inversion E1; subst. exists B, f. auto.
Qed.
Print Assumptions C03gen_raw_iff_edge.

(* every report is about one of the instructions handed in (edges point forward) *)
Theorem C03gen_edges_forward : forall (T : Type) dep pr pf arch, tie_hyps dep pr pf arch ->
  forall fd (A : line (T:=T)) rest, Forall wf_line rest ->
  exists reps, g_find_depending pr pf arch (emb_line A) (VList (map emb_line rest)) (VBool fd) = DOk (VList (map emb_report reps)) /\
    forall (B : line (T:=T)) f, In (B, f) reps -> exists B' : line (T:=T), In B' rest /\ l_no B' = l_no B.
Proof.
  intros T dep pr pf arch H fd A rest Wf. destruct (C03gen_find_depending_is_model T dep pr pf arch H fd A rest Wf) as [E M].
  exists (find_dependingL dep fd A rest). split; [exact E|]. intros B f Hin.
  apply (find_depending_forward dep fd A rest (l_no B) f). rewrite <- M. apply in_map_iff. exists (B, f). auto.
Qed.
Print Assumptions C03gen_edges_forward.

(* without flag dependencies an instruction whose results are only flags yields nothing *)
Theorem C03gen_no_flag_edges_without_f : forall (T : Type) dep pr pf arch, tie_hyps dep pr pf arch ->
  forall (A : line (T:=T)) (rest : list (line (T:=T))), Forall wf_line rest -> (forall d, In d (dsts A) -> exists n, d = OFlag n) ->
  g_find_depending pr pf arch (emb_line A) (VList (map emb_line rest)) (VBool false) = DOk (VList []).
Proof.
  intros T dep pr pf arch H A rest Wf Hd. destruct (C03gen_find_depending_is_model T dep pr pf arch H false A rest Wf) as [E M].
  rewrite E. assert (Z : find_dependingL dep false A rest = []); [|rewrite Z; reflexivity].
  assert (L : map rep_no (find_dependingL dep false A rest) = []).
  { rewrite M. unfold find_depending. induction (dsts A) as [|d ds IH]; [reflexivity|]. cbn [flat_map].
    destruct (Hd d (or_introl eq_refl)) as [n ->]. rewrite (scan_flag_off (T:=T)). apply IH. intros d' Hin. apply Hd. right. exact Hin. }
  destruct (find_dependingL dep false A rest); [reflexivity | discriminate].
Qed.
Print Assumptions C03gen_no_flag_edges_without_f.

(* non-vacuity: the two-line kernel of Props/C03.v through the regenerated functions, with the x86 alias test *)
Example C03gen_nonvacuous :
  let A := mkL (T:=nat) 1 (Some ([], [OReg (mkR "rax" "" false)], [])) 1 1 false [] [] in
  let B := mkL (T:=nat) 2 (Some ([OReg (mkR "eax" "" false)], [OReg (mkR "rbx" "" false)], [])) 1 1 false [] [] in
  g_find_depending px g_x86_is_flag_dependend_of some_arch_sem (emb_line A) (VList [emb_line B]) (VBool false) =
    DOk (VList [VTuple [emb_line B; VList []]]) /\
  g_is_read px g_x86_is_flag_dependend_of (emb_reg (mkR "rax" "" false)) (emb_line B) = DOk (VBool true) /\
  Forall wf_line [B].
Proof. repeat split; try (vm_compute; reflexivity). repeat constructor. Qed.
