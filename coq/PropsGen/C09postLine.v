(* C09 -- translator tie (T) for the POST-PROCESSING stage of parser_x86att.py, lines.
   Compiled by the check against the regenerated PostX86Gen.v (OVC) after C09post.v (operands).
       translated parse_line (grx_stage l) line number = embx_form l line number
   for every line l of Model/PostX86.v xline: comment lines; label lines (process_label's in-place rewrite of label["name"]);
   directive lines (parameters / further keys / comment as delivered); instruction lines with up to four operands of the forms
   of C09post_operand_partial (slots in order, mnemonic = result["mnemonic"].split(",")[0], comment " ".join, "" when empty):
   the classification order comment -> label -> directive -> instruction, the try/except cascade and every field of the form.
   grx_stage is compared with real pyparsing output and den_xline with the hand model's parse_line on the lines of every run. *)
From Coq Require Import String Ascii List Bool ZArith NArith Lia.
From OV Require Import Model.PyString Model.PyDyn Model.PyPost Model.LexA64 Model.ParseA64 Model.SyntaxA64 Model.PostA64 Model.PostX86.
From OV Require Import Proofs.PyDyn Proofs.PyPost.
From OV Require Model.ParseX86.
From OVC Require Import PostX86Gen C09post.
Import ListNotations.
Open Scope string_scope.

Lemma split_nonempty : forall c s, exists h t, split_char c s = h :: t.
Proof.
  intros c. induction s as [|a r IH]; [exists "", []; reflexivity|]. simpl. destruct (Ascii.eqb a c).
  - eexists; eexists; reflexivity.
  - destruct IH as (h & t & E). rewrite E. eexists; eexists; reflexivity.
Qed.

Arguments x_parse_instruction : simpl never.
Arguments grx_op : simpl never.
Arguments embx_op : simpl never.
Arguments den_xwop : simpl never.
Arguments String.concat : simpl never.
Arguments split_char : simpl never.
Arguments mnem_head : simpl never.

(* ------------------------------------------------------------------ parse_instruction: four operand slots, then the form *)
Definition xslot (orc : string -> pyval -> res pyval) (result : pyval) (key : string) (acc : pyval) (K : pyval -> res pyval) : res pyval :=
  bind (py_in_lit key result) (fun t =>
  if py_truth t then
    bind (bind (bind (py_getitem_lit result key) (fun t' => x_process_operand orc t')) (fun t'' => py_append acc t'')) (fun a => K a)
  else K acc).
Definition xfinish (v_result v_operands : pyval) : res pyval :=
  bind (bind (bind (bind (py_getitem_lit v_result "mnemonic") (fun t142 => py_split t142 (PStr ","))) (fun t143 => py_getitem t143 (PInt 0)))
        (fun t146 => bind (bind (py_in_lit "comment" v_result) (fun t145 =>
                       if py_truth t145 then bind (py_getitem_lit v_result "comment") (fun t144 => py_join (PStr " ") t144) else Ok PNone))
        (fun t147 => new_InstructionForm t146 v_operands (PList []) PNone t147 PNone PNone PNone
                       (PDict [("source", (PList [])); ("destination", (PList [])); ("src_dst", (PList []))]) PNone PNone PNone PNone PNone (PBool false))))
       (fun v_return_dict => Ok v_return_dict).

Lemma xinstr_shape : forall orc line,
  x_parse_instruction orc line =
  bind (orc "instruction_parser" line) (fun result =>
    xslot orc result "operand1" (PList []) (fun a1 => xslot orc result "operand2" a1 (fun a2 => xslot orc result "operand3" a2 (fun a3 =>
    xslot orc result "operand4" a3 (fun a4 => xfinish result a4))))).
Proof. intros. reflexivity. Qed.

Lemma xslot_present : forall orc d key o acc K, assoc key d = Some (grx_op o) -> xwop_okb o = true ->
  xslot orc (PDict d) key (PList acc) K = K (PList (acc ++ [embx_op (den_xwop o)])%list).
Proof.
  intros orc d key o acc K A H. unfold xslot. cbn [py_in_lit py_getitem_lit bind]. rewrite A. cbn [py_truth bind].
  rewrite (C09post_operand_partial orc o H). reflexivity.
Qed.
Lemma xslot_absent : forall orc d key acc K, assoc key d = None -> xslot orc (PDict d) key acc K = K acc.
Proof. intros orc d key acc K A. unfold xslot. cbn [py_in_lit bind]. rewrite A. reflexivity. Qed.

Lemma join_ws : forall c, match c with None => True | Some ws => join_strs " " (map PStr ws) = Ok (String.concat " " ws) end.
Proof. intros [ws|]; auto. apply join_words. Qed.

Definition xinstr_form (mn : string) (ops : list xwop) (c : option (list string)) : pyval :=
  mk_form (PStr (mnem_head mn)) (PList (map (fun o => embx_op (den_xwop o)) ops)) PNone (ocomment c) PNone PNone PNone.

Ltac present o := rewrite (xslot_present _ _ _ o) by (first [reflexivity | assumption]).
Ltac absent := rewrite xslot_absent by reflexivity.

Lemma xparse_instr : forall orc line mn ops c,
  orc "instruction_parser" line = Ok (grx_instr mn ops c) -> (length ops <= 4)%nat -> forallb xwop_okb ops = true ->
  x_parse_instruction orc line = Ok (xinstr_form mn ops c).
Proof.
  intros orc line mn ops c O L P. rewrite xinstr_shape, O. cbn [bind]. unfold grx_instr, xinstr_form.
  pose proof (join_ws c) as J. destruct (split_nonempty ","%char mn) as (h & t & SP).
  assert (MH : mnem_head mn = h) by (unfold mnem_head; rewrite SP; reflexivity).
  destruct ops as [|o1 [|o2 [|o3 [|o4 [|o5 r]]]]]; [| | | | | cbn in L; lia]; cbn [forallb] in P; rewrite ?andb_true_iff in P;
    destruct c as [ws|]; cbn [grx_comment app grx_operands].
  all: repeat match goal with H : _ /\ _ |- _ => destruct H end.
  all: try present o1; try present o2; try present o3; try present o4; repeat absent.
  all: unfold xfinish; cbn; rewrite SP; cbn; rewrite ?J, MH; reflexivity.
Qed.

(* ------------------------------------------------------------------ parse_line *)
Ltac zhead := match goal with |- (let x := ?F in @?B x) = ?R => change ((B F) = R); cbv beta end.
Ltac run facts := repeat progress (cbn beta iota delta; rewrite ?list_index_0, ?list_index_1; facts; try zhead);
                  repeat progress (cbn; facts).

Lemma assoc_more_x : forall more k rest,
  forallb (fun kv => negb (existsb (String.eqb (fst kv)) ["name"; "parameters"; "comment"])) more = true ->
  In k ["name"; "parameters"; "comment"] -> assoc k (more ++ rest) = assoc k rest.
Proof.
  intros more k rest H I. induction more as [|[k' v] t IH]; [reflexivity|].
  cbn [forallb fst] in H. apply andb_true_iff in H. destruct H as [H1 H2]. cbn [app assoc].
  assert (E : key_eqb k k' = false).
  { rewrite key_eqb_eq. apply negb_true_iff in H1. apply Bool.not_true_iff_false. intro Q. apply String.eqb_eq in Q. subst k'.
    cbn [existsb] in H1. cbn [In] in I. destruct I as [<-|[<-|[<-|[]]]]; cbn in H1; discriminate. }
  rewrite E. apply IH. exact H2.
Qed.

Theorem C09post_line_partial : forall l line ln, xline_okb l = true ->
  x_parse_line (grx_stage l) line ln = Ok (embx_form l line ln).
Proof.
  intros l line ln H. destruct l as [ws|n c|n ps more c|mn ops c].
  - pose proof (join_words ws) as J. run ltac:(rewrite ?J, ?Pos2Nat.inj_1). reflexivity.
  - pose proof (join_ws c) as J. destruct c as [ws|]; run ltac:(rewrite ?J, ?Pos2Nat.inj_1); reflexivity.
  - cbn [xline_okb] in H. pose proof (join_ws c) as J.
    pose proof (assoc_more_x more "comment" (grx_comment c) H) as M.
    destruct c as [ws|]; cbn [grx_comment] in *; run ltac:(rewrite ?M by (cbn; tauto); rewrite ?J, ?Pos2Nat.inj_1); reflexivity.
  - cbn [xline_okb] in H. apply andb_true_iff in H. destruct H as [L P]. apply Nat.leb_le in L.
    assert (PI : x_parse_instruction (grx_stage (XLInstr mn ops c)) line = Ok (xinstr_form mn ops c)) by (apply xparse_instr; [reflexivity|exact L|exact P]).
    unfold xinstr_form in PI. unfold x_parse_line. remember (grx_stage (XLInstr mn ops c)) as orc eqn:EO.
    assert (O1 : orc "comment" line = Raise ParseException) by (subst orc; reflexivity).
    assert (O3 : orc "label" line = Raise ParseException) by (subst orc; reflexivity).
    assert (O4 : orc "directive" line = Raise ParseException) by (subst orc; reflexivity).
    clear EO. run ltac:(rewrite ?O1, ?O3, ?O4, ?PI). unfold embx_form, den_xline. rewrite map_map. reflexivity.
Qed.
Print Assumptions C09post_line_partial.

Example C09post_line_nonvacuous :
  let l := XLInstr "vaddpd,x" [XMem (XDInt (mknum true true "10")) (Some "rax") None None None; XReg "zmm1" (Some ("k1", true))] (Some []) in
  xline_okb l = true /\
  (exists f, x_parse_line (grx_stage l) (PStr "t") (PInt 3) = Ok (PObj "InstructionForm" 0 f) /\
     assoc "_mnemonic" f = Some (PStr "vaddpd") /\ assoc "_comment_id" f = Some (PStr "") /\ assoc "_line_number" f = Some (PInt 3)) /\
  (exists f, x_parse_line (grx_stage (XLLabel ".L1" None)) (PStr ".L1:") PNone = Ok (PObj "InstructionForm" 0 f) /\
     assoc "_label_id" f = Some (PStr ".L1") /\ assoc "_directive_id" f = Some PNone).
Proof.
  cbv zeta. split; [reflexivity|]. split; eexists; rewrite C09post_line_partial by reflexivity; vm_compute; repeat split.
Qed.
