(* C10 -- translator tie (T), base_parser.parse_file as regenerated for ParserAArch64 (PostA64Gen.g_parse_file):
   the translated parse_file = the hand model's `file_lines` (Model/ParseFileA64.v) for EVERY file content, start line and
   grammar oracle: content.split("\n"), the lines whose strip() is "" skipped, every other line parsed verbatim with the
   number position + 1 + start_line, in order; the exception of the first failing line is the exception of the file.
   Compiled by the check against the regenerated text (logical path OVC); generic part: Proofs/PostFile.v. *)
From Coq Require Import String Ascii List Bool ZArith NArith Lia.
From OV Require Import Model.PyString Model.PyDyn Model.PyPost Model.LexA64 Model.ParseA64 Model.ParseFileA64.
From OV Require Import Proofs.PyDyn Proofs.PyPost Proofs.PostFile.
From OVC Require Import PostA64Gen.
Import ListNotations.
Open Scope string_scope.

Arguments g_parse_line : simpl never.
Arguments rstrip : simpl never.
Arguments lstrip : simpl never.
Arguments split_char : simpl never.
Arguments String.eqb : simpl never.
Arguments enum_from : simpl never.
Arguments py_for : simpl never.

Theorem C10post_file : forall orc content start,
  g_parse_file orc (PStr content) (PInt (Z.of_nat start)) =
  bind (collect (g_parse_line orc) (file_lines content start)) (fun vs => Ok (PList vs)).
Proof.
  intros orc content start. unfold g_parse_file. cbn.
  erewrite (parse_file_generic (g_parse_line orc) _ content start).
  - destruct (collect (g_parse_line orc) (file_lines content start)); reflexivity.
  - intros i t acc. cbn. rewrite strip_blank. destruct (blank t); [reflexivity|].
    destruct (g_parse_line orc (PStr t) (PInt (i + 1 + Z.of_nat start))); reflexivity.
Qed.
Print Assumptions C10post_file.

(* reading: the result has one form per line of file_lines *)
Corollary C10post_file_lines : forall orc content start forms,
  g_parse_file orc (PStr content) (PInt (Z.of_nat start)) = Ok (PList forms) ->
  length forms = length (file_lines content start).
Proof.
  intros orc content start forms H. rewrite C10post_file in H.
  destruct (collect (g_parse_line orc) (file_lines content start)) as [vs|e] eqn:E; [|discriminate].
  cbn in H. inversion H. subst. eapply collect_length. exact E.
Qed.

(* non-vacuity: blank lines (incl. \x0b, \xa0) are skipped and do not shift the numbers; the parse_line seen is the translated one *)
Example C10post_file_nonvacuous :
  file_lines ("a" ++ nl ++ " " ++ nl ++ nl ++ "b") 7 = [(8, "a"); (11, "b")] /\
  forall orc, g_parse_file orc (PStr ("a" ++ nl ++ " " ++ nl ++ nl ++ "b")) (PInt 7) =
    bind (g_parse_line orc (PStr "a") (PInt 8)) (fun v => bind (g_parse_line orc (PStr "b") (PInt 11)) (fun w => Ok (PList [v; w]))).
Proof.
  split; [vm_compute; reflexivity|]. intros orc. rewrite (C10post_file orc _ 7).
  replace (file_lines ("a" ++ nl ++ " " ++ nl ++ nl ++ "b") 7) with [(8, "a"); (11, "b")]%nat by (vm_compute; reflexivity).
  cbn [collect bind]. change (Z.of_nat 8) with 8%Z. change (Z.of_nat 11) with 11%Z.
  destruct (g_parse_line orc (PStr "a") (PInt 8)); cbn [bind]; [|reflexivity].
  destruct (g_parse_line orc (PStr "b") (PInt 11)); reflexivity.
Qed.
